//! Exploratory differential test: random non-overlapping symbol files versus a linear scan.
//! (Not a finding by itself; it passes on the unmodified code.)

use breakpad_symbols::{FrameSymbolizer, SimpleModule, SymbolFile};
use std::fmt::Write;

struct Rng(u64);
impl Rng {
    fn next(&mut self) -> u64 {
        self.0 ^= self.0 << 13;
        self.0 ^= self.0 >> 7;
        self.0 ^= self.0 << 17;
        self.0
    }
    fn below(&mut self, n: u64) -> u64 {
        self.next() % n
    }
    fn chance(&mut self, pct: u64) -> bool {
        self.below(100) < pct
    }
}

#[derive(Clone, Debug)]
struct Inl {
    depth: u32,
    addr: u64,
    size: u64,
    call_file: u32,
    call_line: u32,
    origin: u32,
}
#[derive(Clone, Debug)]
struct Ln {
    addr: u64,
    size: u64,
    line: u32,
    file: u32,
}
#[derive(Clone, Debug)]
struct Func {
    addr: u64,
    size: u64,
    psize: u32,
    name: String,
    lines: Vec<Ln>,
    inls: Vec<Inl>,
}
#[derive(Clone, Debug)]
struct Pubsym {
    addr: u64,
    psize: u32,
    name: String,
}

#[derive(Default, Debug, PartialEq, Eq, Clone)]
struct Rec {
    instruction: u64,
    function: Option<(String, u64, u32)>,
    source: Option<(String, u32, u64)>,
    inlines: Vec<(String, Option<String>, Option<u32>)>,
}
impl FrameSymbolizer for Rec {
    fn get_instruction(&self) -> u64 {
        self.instruction
    }
    fn set_function(&mut self, name: &str, base: u64, parameter_size: u32) {
        self.function = Some((name.to_string(), base, parameter_size));
    }
    fn set_source_file(&mut self, file: &str, line: u32, base: u64) {
        self.source = Some((file.to_string(), line, base));
    }
    fn add_inline_frame(&mut self, name: &str, file: Option<&str>, line: Option<u32>) {
        self.inlines
            .push((name.to_string(), file.map(|s| s.to_string()), line));
    }
}

const NFILES: u32 = 4;
const NORIG: u32 = 5;

fn gen_inlines(rng: &mut Rng, depth: u32, lo: u64, hi: u64, out: &mut Vec<Inl>) {
    // [lo, hi] inclusive parent range; generate non-overlapping children.
    if depth >= 8 || hi < lo {
        return;
    }
    let mut cur = lo;
    let mut group: Option<(u32, u32, u32)> = None;
    while cur <= hi {
        if !rng.chance(if depth == 0 { 60 } else { 75 }) {
            let step = 1 + rng.below(6);
            cur = match cur.checked_add(step) {
                Some(c) => c,
                None => return,
            };
            continue;
        }
        let max = hi - cur + 1;
        let size = 1 + rng.below(max.min(12));
        // multi-range: sometimes reuse the previous record's identity
        let ident = if let (Some(g), true) = (group, rng.chance(40)) {
            g
        } else {
            (
                rng.below(NFILES as u64) as u32,
                1 + rng.below(500) as u32,
                rng.below(NORIG as u64) as u32,
            )
        };
        group = Some(ident);
        out.push(Inl {
            depth,
            addr: cur,
            size,
            call_file: ident.0,
            call_line: ident.1,
            origin: ident.2,
        });
        gen_inlines(rng, depth + 1, cur, cur + (size - 1), out);
        // gap or adjacent
        let gap = if rng.chance(50) { 0 } else { rng.below(4) };
        cur = match cur.checked_add(size).and_then(|c| c.checked_add(gap)) {
            Some(c) => c,
            None => return,
        };
    }
}

fn gen_file(rng: &mut Rng) -> (Vec<Func>, Vec<Pubsym>) {
    let mut funcs = Vec::new();
    let high = rng.chance(30);
    let mut cur: u64 = if high {
        u64::MAX - 400 - rng.below(200)
    } else {
        rng.below(0x40)
    };
    let nf = 1 + rng.below(6);
    for i in 0..nf {
        let gap = rng.below(0x20);
        cur = match cur.checked_add(if rng.chance(30) { 0 } else { gap }) {
            Some(c) => c,
            None => break,
        };
        let room = u64::MAX - cur; // size-1 <= room
        if room == 0 && rng.chance(50) {
            break;
        }
        let size = (1 + rng.below(0x40)).min(room.saturating_add(1).max(1));
        let end = cur + (size - 1);
        let mut f = Func {
            addr: cur,
            size,
            psize: rng.below(64) as u32,
            name: format!("func{}", i),
            lines: vec![],
            inls: vec![],
        };
        // lines
        let mut a = cur;
        while a <= end {
            if rng.chance(15) {
                // zero-size line
                f.lines.push(Ln {
                    addr: a,
                    size: 0,
                    line: 9999,
                    file: 0,
                });
            }
            let max = end - a + 1;
            let sz = 1 + rng.below(max.min(10));
            if rng.chance(85) {
                f.lines.push(Ln {
                    addr: a,
                    size: sz,
                    line: if rng.chance(10) { 0 } else { 1 + rng.below(1000) as u32 },
                    file: rng.below(NFILES as u64) as u32,
                });
            }
            a = match a.checked_add(sz) {
                Some(x) => x,
                None => break,
            };
        }
        gen_inlines(rng, 0, cur, end, &mut f.inls);
        funcs.push(f);
        cur = match end.checked_add(1) {
            Some(c) => c,
            None => break,
        };
    }
    // publics
    let mut pubs = Vec::new();
    let lo = funcs.first().map(|f| f.addr).unwrap_or(0);
    let hi = funcs.last().map(|f| f.addr + (f.size - 1)).unwrap_or(0);
    let np = rng.below(8);
    for i in 0..np {
        let addr = match rng.below(5) {
            0 => lo.saturating_sub(rng.below(0x10)),
            1 => hi.saturating_add(rng.below(0x10)),
            2 => {
                let f = &funcs[rng.below(funcs.len() as u64) as usize];
                f.addr
            }
            3 => {
                let f = &funcs[rng.below(funcs.len() as u64) as usize];
                (f.addr + (f.size - 1)).saturating_add(1)
            }
            _ => lo + rng.below(hi - lo + 1),
        };
        pubs.push(Pubsym {
            addr,
            psize: rng.below(64) as u32,
            name: format!("pub{}", i),
        });
    }
    (funcs, pubs)
}

fn render(rng: &mut Rng, funcs: &[Func], pubs: &[Pubsym]) -> String {
    let mut s = String::new();
    writeln!(s, "MODULE Linux x86_64 000000000000000000000000000000000 mod").unwrap();
    for i in 0..NFILES {
        writeln!(s, "FILE {} file{}.c", i, i).unwrap();
    }
    // some origins at top, others inside FUNC blocks
    let mut pending: Vec<u32> = (0..NORIG).collect();
    let mut inside: Vec<u32> = vec![];
    pending.retain(|o| {
        if rng.chance(50) {
            inside.push(*o);
            false
        } else {
            true
        }
    });
    for o in &pending {
        writeln!(s, "INLINE_ORIGIN {} origin{}", o, o).unwrap();
    }
    // publics interleaved: half before, half after
    let mut order: Vec<usize> = (0..funcs.len()).collect();
    // shuffle function order in file
    for i in (1..order.len()).rev() {
        let j = rng.below(i as u64 + 1) as usize;
        order.swap(i, j);
    }
    let split = pubs.len() / 2;
    for p in &pubs[..split] {
        writeln!(s, "PUBLIC {:x} {:x} {}", p.addr, p.psize, p.name).unwrap();
    }
    for (k, &fi) in order.iter().enumerate() {
        let f = &funcs[fi];
        writeln!(s, "FUNC {:x} {:x} {:x} {}", f.addr, f.size, f.psize, f.name).unwrap();
        if k == 0 {
            for o in &inside {
                writeln!(s, "INLINE_ORIGIN {} origin{}", o, o).unwrap();
            }
        }
        // inlines, grouped into multi-range records when identity equal & same depth
        let mut inls = f.inls.clone();
        // shuffle
        for i in (1..inls.len()).rev() {
            let j = rng.below(i as u64 + 1) as usize;
            inls.swap(i, j);
        }
        let mut used = vec![false; inls.len()];
        for i in 0..inls.len() {
            if used[i] {
                continue;
            }
            used[i] = true;
            let a = &inls[i];
            write!(
                s,
                "INLINE {} {} {} {} {:x} {:x}",
                a.depth, a.call_line, a.call_file, a.origin, a.addr, a.size
            )
            .unwrap();
            for j in i + 1..inls.len() {
                let b = &inls[j];
                if !used[j]
                    && b.depth == a.depth
                    && b.call_line == a.call_line
                    && b.call_file == a.call_file
                    && b.origin == a.origin
                    && rng.chance(70)
                {
                    used[j] = true;
                    write!(s, " {:x} {:x}", b.addr, b.size).unwrap();
                }
            }
            writeln!(s).unwrap();
        }
        let mut lines = f.lines.clone();
        for i in (1..lines.len()).rev() {
            let j = rng.below(i as u64 + 1) as usize;
            lines.swap(i, j);
        }
        for l in &lines {
            writeln!(s, "{:x} {:x} {} {}", l.addr, l.size, l.line, l.file).unwrap();
        }
    }
    for p in &pubs[split..] {
        writeln!(s, "PUBLIC {:x} {:x} {}", p.addr, p.psize, p.name).unwrap();
    }
    s
}

fn reference(funcs: &[Func], pubs: &[Pubsym], addr: u64, base: u64) -> Rec {
    let mut r = Rec {
        instruction: base + addr,
        ..Default::default()
    };
    let covering = funcs
        .iter()
        .find(|f| f.addr <= addr && addr - f.addr < f.size);
    if let Some(f) = covering {
        r.function = Some((f.name.clone(), f.addr + base, f.psize));
        let line = f
            .lines
            .iter()
            .find(|l| l.size > 0 && l.addr <= addr && addr - l.addr < l.size);
        let mut chain = vec![];
        for d in 0.. {
            match f
                .inls
                .iter()
                .find(|i| i.depth == d && i.addr <= addr && addr - i.addr < i.size)
            {
                Some(i) => chain.push(i.clone()),
                None => break,
            }
        }
        if chain.is_empty() {
            if let Some(l) = line {
                r.source = Some((format!("file{}.c", l.file), l.line, l.addr + base));
            }
        } else {
            let c0 = &chain[0];
            r.source = Some((
                format!("file{}.c", c0.call_file),
                c0.call_line,
                c0.addr + base,
            ));
            for k in 0..chain.len() {
                let name = format!("origin{}", chain[k].origin);
                if k + 1 < chain.len() {
                    let n = &chain[k + 1];
                    r.inlines.push((
                        name,
                        Some(format!("file{}.c", n.call_file)),
                        Some(n.call_line),
                    ));
                } else {
                    match line {
                        Some(l) => r.inlines.push((
                            name,
                            Some(format!("file{}.c", l.file)),
                            if l.line != 0 { Some(l.line) } else { None },
                        )),
                        None => r.inlines.push((name, None, None)),
                    }
                }
            }
        }
        return r;
    }
    // nearest public
    let best = pubs.iter().filter(|p| p.addr <= addr).map(|p| p.addr).max();
    if let Some(pa) = best {
        let prev_func = funcs.iter().filter(|f| f.addr <= addr).map(|f| f.addr).max();
        if let Some(fa) = prev_func {
            if pa <= fa {
                return r;
            }
        }
        // any public with that address acceptable; mimic: report address only
        r.function = Some((String::from("<pub>"), pa + base, 0));
    }
    r
}

#[test]
fn explore_differential() {
    let mut rng = Rng(0x9E3779B97F4A7C15);
    let mut checked = 0u64;
    for iter in 0..3000 {
        let (funcs, pubs) = gen_file(&mut rng);
        let text = render(&mut rng, &funcs, &pubs);
        let sym = SymbolFile::from_bytes(text.as_bytes())
            .unwrap_or_else(|e| panic!("parse failed {:?}\n{}", e, text));
        // addresses
        let mut addrs: Vec<u64> = vec![0, 1, u64::MAX, u64::MAX - 1];
        let mut push = |a: u64| {
            addrs.push(a);
            addrs.push(a.wrapping_add(1));
            addrs.push(a.wrapping_sub(1));
        };
        for f in &funcs {
            push(f.addr);
            push(f.addr + (f.size - 1));
            for l in &f.lines {
                push(l.addr);
                if l.size > 0 {
                    push(l.addr + (l.size - 1));
                }
            }
            for i in &f.inls {
                push(i.addr);
                push(i.addr + (i.size - 1));
            }
        }
        for p in &pubs {
            push(p.addr);
        }
        addrs.sort();
        addrs.dedup();
        for &addr in &addrs {
            let maxbase = u64::MAX - addr;
            let bases = [0u64, maxbase, maxbase / 2, rng.below(maxbase.saturating_add(1).max(1))];
            for &base in &bases {
                let module = SimpleModule {
                    base_address: Some(base),
                    ..SimpleModule::default()
                };
                let mut got = Rec {
                    instruction: base + addr,
                    ..Default::default()
                };
                sym.fill_symbol(&module, &mut got);
                let mut want = reference(&funcs, &pubs, addr, base);
                // publics: compare address only
                if let (Some(w), Some(g)) = (&mut want.function, &got.function) {
                    if w.0 == "<pub>" {
                        let ok = pubs
                            .iter()
                            .any(|p| p.name == g.0 && p.addr + base == g.1 && p.psize == g.2);
                        assert!(ok, "iter {} addr {:x}: bad public {:?}\n{}", iter, addr, g, text);
                        *w = g.clone();
                    }
                }
                assert_eq!(
                    got, want,
                    "iter {} addr {:x} base {:x}\n{}",
                    iter, addr, base, text
                );
                checked += 1;
            }
        }
    }
    eprintln!("checked {} lookups", checked);
}
