// scratch crate for C11 audit
