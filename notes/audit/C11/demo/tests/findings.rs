//! Confirming tests for property C11 (symbolication returns the record that really covers the
//! address). Each test asserts what the property demands and FAILS on the unmodified tree.

use breakpad_symbols::{FrameSymbolizer, SimpleModule, SymbolFile};
use minidump::format::CONTEXT_AMD64;
use minidump::system_info::{Cpu, Os};
use minidump::{
    MinidumpContext, MinidumpContextValidity, MinidumpModule, MinidumpModuleList,
    MinidumpRawContext,
};
use minidump_unwind::{
    string_symbol_supplier, walk_stack, CallStack, MultiSymbolProvider, StackFrame, Symbolizer,
    SystemInfo,
};
use std::collections::HashMap;

/// A `FrameSymbolizer` that records everything it is told.
#[derive(Default, Debug)]
struct Rec {
    instruction: u64,
    function: Option<(String, u64, u32)>,
    source: Option<(String, u32, u64)>,
    inlines: Vec<(String, Option<String>, Option<u32>)>,
}
impl FrameSymbolizer for Rec {
    fn get_instruction(&self) -> u64 {
        self.instruction
    }
    fn set_function(&mut self, name: &str, base: u64, parameter_size: u32) {
        self.function = Some((name.to_string(), base, parameter_size));
    }
    fn set_source_file(&mut self, file: &str, line: u32, base: u64) {
        self.source = Some((file.to_string(), line, base));
    }
    fn add_inline_frame(&mut self, name: &str, file: Option<&str>, line: Option<u32>) {
        self.inlines
            .push((name.to_string(), file.map(|s| s.to_string()), line));
    }
}

fn lookup(sym: &SymbolFile, addr: u64) -> Rec {
    let module = SimpleModule::default(); // base address 0
    let mut rec = Rec {
        instruction: addr,
        ..Default::default()
    };
    sym.fill_symbol(&module, &mut rec);
    rec
}

/// Symbolicate one context frame at `instruction` with `walk_stack` and the given provider list.
async fn symbolicate_with(providers: Vec<String>, instruction: u64) -> StackFrame {
    let modules = MinidumpModuleList::from_modules(vec![MinidumpModule::new(
        0x0000_7400_c000_0000,
        0x10000,
        "module1",
    )]);
    let system_info = SystemInfo {
        os: Os::Linux,
        os_version: None,
        os_build: None,
        cpu: Cpu::X86_64,
        cpu_info: None,
        cpu_microcode_version: None,
        cpu_count: 1,
    };
    let mut multi = MultiSymbolProvider::new();
    for text in providers {
        let mut map = HashMap::new();
        map.insert("module1".to_string(), text);
        multi.add(Box::new(Symbolizer::new(string_symbol_supplier(map))));
    }
    let raw = CONTEXT_AMD64 {
        rip: instruction,
        ..Default::default()
    };
    let context = MinidumpContext {
        raw: MinidumpRawContext::Amd64(raw),
        valid: MinidumpContextValidity::All,
    };
    let mut stack = CallStack::with_context(context);
    // No stack memory: only the context frame is produced and symbolicated.
    walk_stack(0, (), &mut stack, None, &modules, &system_info, &multi).await;
    assert_eq!(stack.frames.len(), 1);
    stack.frames.remove(0)
}

const INLINE_SYM: &str = "MODULE Linux x86_64 000000000000000000000000000000000 module1
FILE 0 outer.c
FILE 1 mid.c
FILE 2 leaf.c
INLINE_ORIGIN 0 mid_fn
INLINE_ORIGIN 1 leaf_fn
FUNC 1000 100 0 outer_fn
INLINE 0 10 0 0 1010 20
INLINE 1 20 1 1 1018 8
1000 10 5 0
1010 8 21 1
1018 8 31 2
1020 e0 6 0
";

/// Finding 1: with two symbol providers that both have symbols for the module (what
/// `minidump-stackwalk --use-local-debuginfo --symbols-path ...` sets up), every provider is
/// asked to fill the same frame, so the inline frames are listed twice.
#[tokio::test]
async fn multi_provider_lists_inline_frames_twice() {
    // Baseline: one provider gives the two nested inlined calls, innermost first.
    let single = symbolicate_with(vec![INLINE_SYM.to_string()], 0x0000_7400_c000_101a).await;
    let names = |f: &StackFrame| -> Vec<(String, Option<u32>)> {
        f.inlines
            .iter()
            .map(|i| (i.function_name.clone(), i.source_line))
            .collect()
    };
    let expected = vec![
        ("leaf_fn".to_string(), Some(31)),
        ("mid_fn".to_string(), Some(20)),
    ];
    assert_eq!(names(&single), expected);
    assert_eq!(single.function_name.as_deref(), Some("outer_fn"));
    assert_eq!(single.source_line, Some(10));

    // Same symbol file offered by two providers: the frame must be the same.
    let double = symbolicate_with(
        vec![INLINE_SYM.to_string(), INLINE_SYM.to_string()],
        0x0000_7400_c000_101a,
    )
    .await;
    assert_eq!(
        names(&double),
        expected,
        "inline frames must be exactly the nested inlined calls covering the address"
    );
}

/// Finding 2: with two providers, the later provider's PUBLIC overwrites the function found by
/// the earlier provider's FUNC, while source file/line of the FUNC stay: the frame mixes records
/// of two symbol files, and the reported function is not the FUNC covering the address.
#[tokio::test]
async fn multi_provider_mixes_func_of_one_file_with_public_of_another() {
    let full = "MODULE Linux x86_64 000000000000000000000000000000000 module1
FILE 0 a.c
FUNC 1000 100 0 real_function
1000 100 42 0
";
    let publics_only = "MODULE Linux x86_64 000000000000000000000000000000000 module1
PUBLIC 800 0 some_exported_symbol
";
    let frame = symbolicate_with(
        vec![full.to_string(), publics_only.to_string()],
        0x0000_7400_c000_1010,
    )
    .await;
    // The source line comes from the FUNC's line record ...
    assert_eq!(frame.source_file_name.as_deref(), Some("a.c"));
    assert_eq!(frame.source_line, Some(42));
    // ... so the function must be that FUNC too.
    assert_eq!(frame.function_name.as_deref(), Some("real_function"));
    assert_eq!(frame.function_base, Some(0x0000_7400_c000_1000));
}

/// Finding 3: a FUNC that partially overlaps the FUNC before it is dropped as a whole, so the
/// addresses that only it covers are attributed to a PUBLIC (or to nothing).
#[test]
fn func_overlapping_previous_func_is_dropped_and_public_reported_instead() {
    let sym = SymbolFile::from_bytes(
        b"MODULE Linux x86_64 000000000000000000000000000000000 m
FILE 0 a.c
PUBLIC 1040 0 some_public
FUNC 1000 100 0 first
1000 100 1 0
FUNC 1080 100 0 second
1080 100 2 0
",
    )
    .unwrap();
    // 0x1150 lies in [0x1080, 0x117f] = `second` only.
    let got = lookup(&sym, 0x1150);
    assert_eq!(
        got.function,
        Some(("second".to_string(), 0x1080, 0)),
        "a FUNC record covers 0x1150, it must be the reported function"
    );
}

/// Finding 4: a line record that overlaps the line record before it is dropped as a whole, so
/// the addresses only it covers get no source line.
#[test]
fn line_overlapping_previous_line_is_dropped() {
    let sym = SymbolFile::from_bytes(
        b"MODULE Linux x86_64 000000000000000000000000000000000 m
FILE 0 a.c
FUNC 1000 100 0 f
1000 20 1 0
1010 20 2 0
1030 d0 3 0
",
    )
    .unwrap();
    // 0x1025 lies in [0x1010, 0x102f] (line 2) only.
    let got = lookup(&sym, 0x1025);
    assert_eq!(got.function, Some(("f".to_string(), 0x1000, 0)));
    assert_eq!(
        got.source,
        Some(("a.c".to_string(), 2, 0x1010)),
        "a line record covers 0x1025, its line must be reported"
    );
}

/// Finding 5: the search for the inlinee of a given depth only looks at the record with the
/// nearest preceding start address. A second record of the same depth that starts later (and
/// ends earlier) hides the record that really covers the address.
#[test]
fn inlinee_hidden_by_later_starting_record_of_same_depth() {
    let sym = SymbolFile::from_bytes(
        b"MODULE Linux x86_64 000000000000000000000000000000000 m
FILE 0 a.c
INLINE_ORIGIN 1 big_inlinee
INLINE_ORIGIN 2 small_inlinee
FUNC 1000 100 0 outer
INLINE 0 10 0 1 1000 100
INLINE 0 20 0 2 1010 4
1000 100 5 0
",
    )
    .unwrap();
    // Before the small record everything is fine:
    let before = lookup(&sym, 0x100f);
    assert_eq!(before.source, Some(("a.c".to_string(), 10, 0x1000)));
    assert_eq!(
        before.inlines,
        vec![("big_inlinee".to_string(), Some("a.c".to_string()), Some(5))]
    );
    // 0x1020 is covered by exactly one depth-0 inlinee, [0x1000, 0x10ff] big_inlinee.
    let got = lookup(&sym, 0x1020);
    assert_eq!(
        got.source,
        Some(("a.c".to_string(), 10, 0x1000)),
        "source line of the outer function must be the call site of the covering inlinee"
    );
    assert_eq!(
        got.inlines,
        vec![("big_inlinee".to_string(), Some("a.c".to_string()), Some(5))]
    );
}
