//! NOT a violation of the literal statement of C05 (every frame below obeys all its rules),
//! but closely related to its purpose ("makes progress" is the termination argument):
//! a CFI frame's stack pointer is not tied to the thread's stack memory, so a rule set that
//! needs no memory read makes the walker produce frames until sp reaches 2^64 (or 2^32).

use audit_c05_demo::*;
use minidump::system_info::Os;
use std::collections::HashMap;

#[tokio::test]
async fn observation_cfi_walk_not_bounded_by_stack_memory() {
    let mut symbols = HashMap::new();
    symbols.insert(
        "module1".to_string(),
        // .ra is the constant 0x40000100 (inside module1), .cfa advances by one word per frame.
        "MODULE Linux x86_64 000000000000000000000000000000000 module1\n\
         STACK CFI INIT 0 10000 .cfa: $rsp 8 + .ra: 1073742080\n"
            .to_string(),
    );
    let input = Input {
        arch: Arch::Amd64,
        os: Os::Linux,
        ip: 0x4000_0100,
        sp: 0x1000_0000,
        fp: 0,
        lr: 0,
        gp: 0,
        valid: None,
        stack_base: 0x1000_0000,
        stack_bytes: vec![0u8; 64], // room for 8 words
        modules: vec![(0x4000_0000, 0x10000, "module1".to_string())],
        symbols,
    };
    // The callback inside `walk` panics (= this test fails) once more than 10000 frames have
    // been produced for a 64-byte stack; without it the walk would run for ~2^61 frames.
    let stack = input.walk(10_000).await;
    input.check(&stack).unwrap();
    assert!(stack.frames.len() <= 10_000);
}
