use audit_c05_demo::*;
use minidump::system_info::Os;
use std::collections::HashMap;

fn gen(rng: &mut Rng, arch: Arch) -> Input {
    let w = arch.width();
    let is64 = w == 8;
    let top: u64 = if is64 { u64::MAX } else { u32::MAX as u64 };

    let lens = [0usize, 4, 8, 16, 64, 256, 2048];
    let len = *rng.pick(&lens);
    let bases: Vec<u64> = vec![
        0x1000_0000,
        0x7000_0000,
        if is64 { 0x7fff_0000_0000 } else { 0x7fff_0000 },
        (top - len as u64).wrapping_add(1), // ends with the last byte of the address space
        top - len as u64,
        0x1000,
        0,
        0x1000_0003,
    ];
    let stack_base = *rng.pick(&bases);
    let stack_end = stack_base.wrapping_add(len as u64);

    let m1 = 0x4000_0000u64;
    let m2 = 0x5000_0000u64;
    let mut modules = vec![
        (m1, 0x10000u32, "module1".to_string()),
        (m2, 0x10000u32, "module2".to_string()),
    ];
    match rng.below(6) {
        0 => modules.push((0, 0x3000, "module0".to_string())),
        1 => modules.push((top - 0xffff, 0xffff, "moduletop".to_string())),
        2 => modules.push((top - 0xffff, 0x10000, "moduletop".to_string())),
        3 => modules.push((m1 + 0x8000, 0x10000, "overlap".to_string())),
        _ => {}
    }

    let mut pool: Vec<u64> = vec![
        0,
        1,
        4095,
        4096,
        4097,
        4096 + arch.call_adjust(),
        m1,
        m1 + 1,
        m1 + 2,
        m1 + 4,
        m1 + 8,
        m1 + 0x100,
        m1 + 0x2000,
        m1 + 0x9000,
        m1 + 0xffff,
        m1 + 0x10000,
        m1 + 0x10001,
        m2 + 0x100,
        m2 + 0x8000,
        top,
        top - 1,
        top - 7,
        top - 0x100,
        u32::MAX as u64,
        0x8000_0000,
        0x2000,
        0x2fff,
        stack_base,
        stack_end,
        stack_end.wrapping_sub(w),
        stack_end.wrapping_sub(2 * w),
        stack_base.wrapping_sub(w),
    ];
    for _ in 0..12 {
        let k = rng.below(len / 4 + 4) as u64;
        pool.push(stack_base.wrapping_add(k * 4));
    }
    pool.push(stack_base.wrapping_add(1));
    pool.push(rng.next());
    if arch == Arch::Mips32 {
        pool.push(0x1_0000_0000 | stack_base);
        pool.push(0xffff_ffff_0000_0000 | stack_base);
    }
    if is64 {
        pool.push(0x7fff_ffff_ffff);
        pool.push(0x8000_0000_0000);
        pool.push(0xffff_8000_0000_0000);
        pool.push(0x000f_ffff_ffff_ffff);
        pool.push(0x0010_0000_0000_0000);
        pool.push((1 << 47) | (m1 + 0x100));
        pool.push(0xabcd_0000_0000_0000 | (m1 + 0x100));
    }

    let mut stack_bytes = vec![0u8; len];
    let mut off = 0usize;
    while off + (w as usize) <= len {
        let v = *rng.pick(&pool);
        let b = v.to_le_bytes();
        stack_bytes[off..off + w as usize].copy_from_slice(&b[..w as usize]);
        off += w as usize;
    }

    let names = arch.reg_names();
    let d = |n: &str| -> String {
        match arch {
            Arch::Arm | Arch::Arm64 | Arch::Arm64Old => n.to_string(),
            _ => format!("${n}"),
        }
    };
    let (ip_n, sp_n, fp_n, lr_n, gp_n) = (
        d(names[0]),
        d(names[1]),
        d(names[2]),
        d(names[3]),
        d(names[4]),
    );
    let cfa_exprs = vec![
        format!("{sp_n} {w} +"),
        format!("{sp_n} {} +", 2 * w),
        format!("{sp_n}"),
        format!("{sp_n} {w} -"),
        format!("{sp_n} 1 +"),
        format!("{fp_n} {} +", 2 * w),
        format!("{fp_n}"),
        format!("{gp_n}"),
        "0".to_string(),
        "-1".to_string(),
        "-8".to_string(),
        format!("{sp_n} -8 +"),
        format!("{sp_n} 4294967296 +"),
        format!("{sp_n} 16 + 16 @"),
        format!("{sp_n} ^"),
    ];
    let ra_exprs = vec![
        format!(".cfa {w} - ^"),
        format!(".cfa {w} - ^"),
        format!(".cfa {w} - ^"),
        format!(".cfa {} - ^", 2 * w),
        format!(".cfa ^"),
        format!("{lr_n}"),
        format!("{ip_n}"),
        format!("{gp_n}"),
        "4096".to_string(),
        "4095".to_string(),
        format!("{}", m1 + 0x100),
        "-1".to_string(),
        format!("{sp_n} ^"),
    ];
    let extra = vec![
        String::new(),
        format!("{sp_n}: .cfa {w} +"),
        format!("{sp_n}: .cfa {w} -"),
        format!("{sp_n}: .undef"),
        format!("{sp_n}: {gp_n}"),
        format!("{ip_n}: {gp_n}"),
        format!("{ip_n}: .undef"),
        format!("{ip_n}: 0"),
        format!("{fp_n}: .cfa {} - ^", 2 * w),
        format!("{lr_n}: {gp_n}"),
    ];

    let mut symbols = HashMap::new();
    for name in ["module1", "module2", "module0", "moduletop"] {
        let kind = rng.below(4);
        if kind == 0 {
            continue; // no symbols for this module
        }
        let mut s = format!("MODULE Linux x86 000000000000000000000000000000000 {name}\n");
        s += "FILE 0 a.c\n";
        if kind >= 2 {
            s += "FUNC 0 2000 0 func_a\n0 1000 10 0\n1000 1000 20 0\n";
            s += "FUNC 2000 1000 0 func_b\n";
            s += "FUNC 8000 8000 0 func_c\n";
            s += "PUBLIC 4000 0 public_a\n";
            s += "PUBLIC fff0 0 public_b\n";
        }
        if kind == 3 || rng.below(2) == 0 {
            s += &format!(
                "STACK CFI INIT 0 10000 .cfa: {} .ra: {} {}\n",
                rng.pick(&cfa_exprs),
                rng.pick(&ra_exprs),
                rng.pick(&extra)
            );
            if rng.below(2) == 0 {
                s += &format!(
                    "STACK CFI 100 .cfa: {} {}\n",
                    rng.pick(&cfa_exprs),
                    rng.pick(&extra)
                );
            }
        }
        if arch == Arch::X86 && rng.below(2) == 0 {
            let progs = [
                "$T0 $ebp = $eip $T0 4 + ^ = $ebp $T0 ^ = $esp $T0 8 + =",
                "$eip .raSearch ^ = $esp .raSearch 4 + =",
                "$esp $esp 4 + =",
                "$eip $ebx = $esp $esp 1 + =",
                "$eip 8192 = $esp .undef =",
                "$T0 $ebp 8 @ = $eip $T0 4 + ^ = $esp $T0 8 + =",
                "$eip $esp ^ = $esp $esp 4 - =",
            ];
            s += &format!(
                "STACK WIN 4 0 1000 0 0 {:x} {:x} {:x} 0 1 {}\n",
                rng.below(3) * 4,
                rng.below(3) * 4,
                rng.below(3) * 4,
                rng.pick(&progs)
            );
            s += &format!(
                "STACK WIN 0 1000 1000 0 0 {:x} {:x} {:x} 0 0 {}\n",
                rng.below(3) * 4,
                rng.below(4) * 4,
                rng.below(3) * 4,
                rng.below(2)
            );
        }
        symbols.insert(name.to_string(), s);
    }

    let oses = [Os::Linux, Os::Windows, Os::Ios, Os::MacOs, Os::Android];
    let valid = match rng.below(7) {
        0 => Some(vec![names[0], names[1]]),
        1 => Some(vec![names[0], names[2]]),
        2 => Some(vec![names[0], names[1], names[2], names[3], names[4]]),
        3 => Some(match arch {
            Arch::Arm => vec!["r15", "r13", "r11", "r14"],
            Arch::Arm64 | Arch::Arm64Old => vec!["pc", "sp", "x29", "x30"],
            _ => vec![names[0], names[1], names[2]],
        }),
        _ => None,
    };
    let mask = if is64 { u64::MAX } else { u32::MAX as u64 };
    let reg = |rng: &mut Rng| -> u64 {
        let v = *rng.pick(&pool);
        if arch == Arch::Mips32 {
            v
        } else {
            v & mask
        }
    };
    Input {
        arch,
        os: *rng.pick(&oses),
        ip: reg(rng),
        sp: reg(rng),
        fp: reg(rng),
        lr: reg(rng),
        gp: reg(rng),
        valid,
        stack_base,
        stack_bytes,
        modules,
        symbols,
    }
}

fn explore(arch: Arch, seed: u64, n: usize) {
    let rt = tokio::runtime::Builder::new_current_thread()
        .build()
        .unwrap();
    std::panic::set_hook(Box::new(|_| {}));
    let mut rng = Rng(seed);
    let mut kinds: std::collections::BTreeMap<String, usize> = Default::default();
    let mut failures = 0;
    let mut multi = 0;
    let mut maxdepth = 0;
    let mut unbounded = 0;
    let mut trusts: std::collections::BTreeMap<String, usize> = Default::default();
    for case in 0..n {
        let input = gen(&mut rng, arch);
        let res = std::panic::catch_unwind(std::panic::AssertUnwindSafe(|| {
            rt.block_on(input.walk(3000))
        }));
        match res {
            Err(e) => {
                let msg = e
                    .downcast_ref::<String>()
                    .cloned()
                    .or_else(|| e.downcast_ref::<&str>().map(|s| s.to_string()))
                    .unwrap_or_default();
                if msg.starts_with("more than") {
                    // Unbounded CFI walk (see tests/observations.rs); not a C05 check failure.
                    unbounded += 1;
                    continue;
                }
                failures += 1;
                let k = format!("PANIC {msg}");
                let c = kinds.entry(k).or_default();
                *c += 1;
                if *c <= 2 {
                    eprintln!("=== {arch:?} case {case}: PANIC {msg}\n{:#x?}", InputView(&input));
                }
            }
            Ok(stack) => {
                if stack.frames.len() > 1 {
                    multi += 1;
                }
                for f in &stack.frames[1..] {
                    *trusts.entry(format!("{:?}", f.trust)).or_default() += 1;
                }
                maxdepth = maxdepth.max(stack.frames.len());
                if let Err(msg) = input.check(&stack) {
                    failures += 1;
                    let k: String = msg.split(|c: char| c.is_ascii_digit()).next().unwrap().to_string()
                        + msg.split("trust").nth(1).unwrap_or("");
                    let c = kinds.entry(k).or_default();
                    *c += 1;
                    if *c <= 2 {
                        eprintln!(
                            "=== {arch:?} case {case}: {msg}\n{}\n{:#x?}",
                            describe(&stack),
                            InputView(&input)
                        );
                    }
                }
            }
        }
    }
    let _ = std::panic::take_hook();
    eprintln!("{arch:?}: {n} cases, {multi} with >1 frame, {unbounded} aborted after 3000 frames, {failures} failures: {kinds:#?} trusts {trusts:?} maxdepth {maxdepth}");
    assert_eq!(failures, 0);
}

struct InputView<'a>(&'a Input);
impl std::fmt::Debug for InputView<'_> {
    fn fmt(&self, f: &mut std::fmt::Formatter<'_>) -> std::fmt::Result {
        let i = self.0;
        let w = i.arch.width() as usize;
        let words: Vec<u64> = i
            .stack_bytes
            .chunks(w)
            .filter(|c| c.len() == w)
            .map(|c| {
                let mut b = [0u8; 8];
                b[..w].copy_from_slice(c);
                u64::from_le_bytes(b)
            })
            .take(48)
            .collect();
        f.debug_struct("Input")
            .field("arch", &i.arch)
            .field("os", &i.os)
            .field("ip", &i.ip)
            .field("sp", &i.sp)
            .field("fp", &i.fp)
            .field("lr", &i.lr)
            .field("gp", &i.gp)
            .field("valid", &i.valid)
            .field("stack_base", &i.stack_base)
            .field("stack_len", &i.stack_bytes.len())
            .field("words", &words)
            .field("modules", &i.modules)
            .field("symbols", &i.symbols)
            .finish()
    }
}

// Exploration harness: random inputs per architecture, every result checked against C05.
// (It found no violation of the property on the unmodified tree.)
const N: usize = 5000;

#[test]
fn explore_amd64() {
    explore(Arch::Amd64, 0x1234_5678_9abc_d111, N);
}
#[test]
fn explore_x86() {
    explore(Arch::X86, 0x2234_5678_9abc_d111, N);
}
#[test]
fn explore_arm() {
    explore(Arch::Arm, 0x3234_5678_9abc_d111, N);
}
#[test]
fn explore_arm64() {
    explore(Arch::Arm64, 0x4234_5678_9abc_d111, N);
}
#[test]
fn explore_arm64_old() {
    explore(Arch::Arm64Old, 0x5234_5678_9abc_d111, N);
}
#[test]
fn explore_mips32() {
    explore(Arch::Mips32, 0x6234_5678_9abc_d111, N);
}
#[test]
fn explore_mips64() {
    explore(Arch::Mips64, 0x7234_5678_9abc_d111, N);
}
