//! Scratch harness for audit C05: builds a walk_stack input for any architecture
//! through public APIs only, and checks the produced call stack against property C05.

use minidump::format as md;
use minidump::system_info::{Cpu, Os};
use minidump::{
    MinidumpContext, MinidumpContextValidity, MinidumpMemory, MinidumpModule, MinidumpModuleList,
    MinidumpRawContext, Module, UnifiedMemory,
};
use minidump_unwind::{
    string_symbol_supplier, walk_stack, CallStack, FrameTrust, StackFrame, Symbolizer, SystemInfo,
};
use std::collections::{HashMap, HashSet};

#[derive(Clone, Copy, Debug, PartialEq, Eq)]
pub enum Arch {
    Amd64,
    X86,
    Arm,
    Arm64,
    Arm64Old,
    Mips32,
    Mips64,
}

impl Arch {
    pub fn width(self) -> u64 {
        match self {
            Arch::Amd64 | Arch::Arm64 | Arch::Arm64Old | Arch::Mips64 => 8,
            _ => 4,
        }
    }
    pub fn call_adjust(self) -> u64 {
        match self {
            Arch::Amd64 | Arch::X86 => 1,
            Arch::Arm => 2,
            Arch::Arm64 | Arch::Arm64Old => 4,
            Arch::Mips32 | Arch::Mips64 => 8,
        }
    }
    pub fn may_repeat_sp(self) -> bool {
        !matches!(self, Arch::Amd64 | Arch::X86)
    }
    pub fn cpu(self) -> Cpu {
        match self {
            Arch::Amd64 => Cpu::X86_64,
            Arch::X86 => Cpu::X86,
            Arch::Arm => Cpu::Arm,
            Arch::Arm64 | Arch::Arm64Old => Cpu::Arm64,
            Arch::Mips32 => Cpu::Mips,
            Arch::Mips64 => Cpu::Mips64,
        }
    }
    /// names: ip, sp, fp, lr, callee-saved general register
    pub fn reg_names(self) -> [&'static str; 5] {
        match self {
            Arch::Amd64 => ["rip", "rsp", "rbp", "r12", "rbx"],
            Arch::X86 => ["eip", "esp", "ebp", "esi", "ebx"],
            Arch::Arm => ["pc", "sp", "fp", "lr", "r4"],
            Arch::Arm64 | Arch::Arm64Old => ["pc", "sp", "fp", "lr", "x19"],
            Arch::Mips32 | Arch::Mips64 => ["pc", "sp", "fp", "ra", "s0"],
        }
    }
}

#[derive(Clone, Debug)]
pub struct Input {
    pub arch: Arch,
    pub os: Os,
    pub ip: u64,
    pub sp: u64,
    pub fp: u64,
    pub lr: u64,
    pub gp: u64,
    /// None = MinidumpContextValidity::All
    pub valid: Option<Vec<&'static str>>,
    pub stack_base: u64,
    pub stack_bytes: Vec<u8>,
    pub modules: Vec<(u64, u32, String)>,
    pub symbols: HashMap<String, String>,
}

impl Input {
    pub fn context(&self) -> MinidumpContext {
        let raw = match self.arch {
            Arch::Amd64 => MinidumpRawContext::Amd64(md::CONTEXT_AMD64 {
                rip: self.ip,
                rsp: self.sp,
                rbp: self.fp,
                r12: self.lr,
                rbx: self.gp,
                ..Default::default()
            }),
            Arch::X86 => MinidumpRawContext::X86(md::CONTEXT_X86 {
                eip: self.ip as u32,
                esp: self.sp as u32,
                ebp: self.fp as u32,
                esi: self.lr as u32,
                ebx: self.gp as u32,
                ..Default::default()
            }),
            Arch::Arm => {
                let mut c = md::CONTEXT_ARM::default();
                c.iregs[15] = self.ip as u32;
                c.iregs[13] = self.sp as u32;
                c.iregs[11] = self.fp as u32;
                c.iregs[14] = self.lr as u32;
                c.iregs[4] = self.gp as u32;
                MinidumpRawContext::Arm(c)
            }
            Arch::Arm64 => {
                let mut c = md::CONTEXT_ARM64::default();
                c.pc = self.ip;
                c.sp = self.sp;
                c.iregs[29] = self.fp;
                c.iregs[30] = self.lr;
                c.iregs[19] = self.gp;
                MinidumpRawContext::Arm64(c)
            }
            Arch::Arm64Old => {
                let mut c = md::CONTEXT_ARM64_OLD::default();
                c.pc = self.ip;
                c.sp = self.sp;
                c.iregs[29] = self.fp;
                c.iregs[30] = self.lr;
                c.iregs[19] = self.gp;
                MinidumpRawContext::OldArm64(c)
            }
            Arch::Mips32 | Arch::Mips64 => {
                let mut c = md::CONTEXT_MIPS::default();
                c.context_flags = if self.arch == Arch::Mips64 {
                    md::ContextFlagsCpu::CONTEXT_MIPS64.bits()
                } else {
                    md::ContextFlagsCpu::CONTEXT_MIPS.bits()
                };
                c.epc = self.ip;
                c.iregs[29] = self.sp;
                c.iregs[30] = self.fp;
                c.iregs[31] = self.lr;
                c.iregs[16] = self.gp;
                MinidumpRawContext::Mips(c)
            }
        };
        let valid = match &self.valid {
            None => MinidumpContextValidity::All,
            Some(v) => MinidumpContextValidity::Some(v.iter().copied().collect::<HashSet<_>>()),
        };
        MinidumpContext { raw, valid }
    }

    pub fn module_list(&self) -> MinidumpModuleList {
        MinidumpModuleList::from_modules(
            self.modules
                .iter()
                .map(|(b, s, n)| MinidumpModule::new(*b, *s, n))
                .collect(),
        )
    }

    pub fn system_info(&self) -> SystemInfo {
        SystemInfo {
            os: self.os,
            os_version: None,
            os_build: None,
            cpu: self.arch.cpu(),
            cpu_info: None,
            cpu_microcode_version: None,
            cpu_count: 1,
        }
    }

    /// Runs the unmodified stack walker through its public entry point.
    /// `max_frames`: the walk is aborted (panic) when more frames than this are produced.
    pub async fn walk(&self, max_frames: usize) -> CallStack {
        let context = self.context();
        let memory = MinidumpMemory {
            desc: Default::default(),
            base_address: self.stack_base,
            size: self.stack_bytes.len() as u64,
            bytes: &self.stack_bytes,
            endian: scroll::LE,
        };
        let modules = self.module_list();
        let system_info = self.system_info();
        let symbolizer = Symbolizer::new(string_symbol_supplier(self.symbols.clone()));
        let mut stack = CallStack::with_context(context);
        walk_stack(
            0,
            move |idx: usize, _f: &StackFrame| {
                if idx > max_frames {
                    panic!("more than {max_frames} frames produced");
                }
            },
            &mut stack,
            Some(UnifiedMemory::Memory(&memory)),
            &modules,
            &system_info,
            &symbolizer,
        )
        .await;
        stack
    }

    fn read_word(&self, addr: u64) -> Option<u64> {
        let w = self.arch.width() as usize;
        let off = addr.checked_sub(self.stack_base)? as usize;
        let end = off.checked_add(w)?;
        let bytes = self.stack_bytes.get(off..end)?;
        let mut buf = [0u8; 8];
        buf[..w].copy_from_slice(bytes);
        Some(u64::from_le_bytes(buf))
    }

    /// Checks property C05 on a produced call stack.
    pub fn check(&self, stack: &CallStack) -> Result<(), String> {
        let arch = self.arch;
        let frames = &stack.frames;
        if frames.is_empty() {
            return Err("no frames at all".into());
        }
        let f0 = &frames[0];
        if f0.trust != FrameTrust::Context {
            return Err(format!("frame 0 trust is {:?}", f0.trust));
        }
        let ctx_ip = self.context().get_instruction_pointer();
        if f0.instruction != ctx_ip || f0.resume_address != ctx_ip {
            return Err(format!(
                "frame 0 instruction {:#x} / resume {:#x} != context ip {:#x}",
                f0.instruction, f0.resume_address, ctx_ip
            ));
        }
        for (i, f) in frames.iter().enumerate() {
            // module and function cover the address
            if let Some(m) = &f.module {
                let base = m.base_address() as u128;
                let end = base + m.size() as u128;
                let a = f.instruction as u128;
                if !(base <= a && a < end) {
                    return Err(format!(
                        "frame {i}: module [{base:#x},{end:#x}) does not cover {a:#x}"
                    ));
                }
            }
            if let Some(fb) = f.function_base {
                if fb > f.instruction {
                    return Err(format!(
                        "frame {i}: function base {fb:#x} above instruction {:#x}",
                        f.instruction
                    ));
                }
            }
            if i == 0 {
                continue;
            }
            let ra = f.context.get_instruction_pointer();
            if f.resume_address != ra {
                return Err(format!(
                    "frame {i}: resume_address {:#x} != context ip {ra:#x}",
                    f.resume_address
                ));
            }
            if ra < 4096 {
                return Err(format!("frame {i}: return address {ra:#x} < 4096"));
            }
            if f.instruction != ra - arch.call_adjust() {
                return Err(format!(
                    "frame {i}: instruction {:#x} is not ra {ra:#x} - {}",
                    f.instruction,
                    arch.call_adjust()
                ));
            }
            if !matches!(
                f.trust,
                FrameTrust::CallFrameInfo | FrameTrust::FramePointer | FrameTrust::Scan
            ) {
                return Err(format!("frame {i}: trust {:?}", f.trust));
            }
            let sp = f.context.get_stack_pointer();
            let prev_sp = frames[i - 1].context.get_stack_pointer();
            let ok = if i == 1 && arch.may_repeat_sp() {
                sp >= prev_sp
            } else {
                sp > prev_sp
            };
            if !ok {
                return Err(format!(
                    "frame {i}: sp {sp:#x} does not progress from callee sp {prev_sp:#x}"
                ));
            }
            if f.trust == FrameTrust::Scan {
                let slot = sp.checked_sub(arch.width());
                let word = slot.and_then(|s| self.read_word(s));
                if word != Some(ra) {
                    return Err(format!(
                        "frame {i}: scanned ra {ra:#x} is not the word below sp {sp:#x} (found {word:x?})"
                    ));
                }
            }
        }
        Ok(())
    }
}

/// Tiny deterministic PRNG (xorshift64*), to avoid extra dependencies.
pub struct Rng(pub u64);
impl Rng {
    pub fn next(&mut self) -> u64 {
        let mut x = self.0;
        x ^= x >> 12;
        x ^= x << 25;
        x ^= x >> 27;
        self.0 = x;
        x.wrapping_mul(0x2545F4914F6CDD1D)
    }
    pub fn below(&mut self, n: usize) -> usize {
        (self.next() % n as u64) as usize
    }
    pub fn pick<'a, T>(&mut self, xs: &'a [T]) -> &'a T {
        &xs[self.below(xs.len())]
    }
}

pub fn describe(stack: &CallStack) -> String {
    let mut s = String::new();
    for (i, f) in stack.frames.iter().enumerate() {
        s += &format!(
            "#{i} instr={:#x} resume={:#x} sp={:#x} trust={:?} module={:?} func={:?}@{:x?}\n",
            f.instruction,
            f.resume_address,
            f.context.get_stack_pointer(),
            f.trust,
            f.module.as_ref().map(|m| m.name.clone()),
            f.function_name,
            f.function_base
        );
    }
    s
}
