//! Audit C02: one test per confirmed pre-existing defect. Every test asserts what the
//! property demands and therefore FAILS on the unmodified code.

use minidump::{
    Minidump, MinidumpLinuxMaps, MinidumpMemory64List, MinidumpMemoryInfoList, MinidumpMemoryList,
    MinidumpModuleList, MinidumpRawContext, MinidumpSystemInfo, MinidumpThreadList,
    MinidumpUnloadedModuleList, Module,
};
use minidump_common::format as md;
use minidump_synth::{
    DumpString, Memory, Module as SynthModule, SimpleStream, SynthMinidump, SystemInfo, Thread,
    UnloadedModule as SynthUnloadedModule,
};
use scroll::ctx::SizeWith;
use scroll::Pwrite;
use test_assembler::{Endian, Section};

fn read(d: SynthMinidump) -> Minidump<'static, Vec<u8>> {
    Minidump::read(d.finish().unwrap()).unwrap()
}

// ---------------------------------------------------------------------------------------------
// 1. A MIPS64 dump (processor_architecture 0x8004, context_flags CONTEXT_MIPS64 = 0x80000) has
//    thread contexts that can never be read, although CONTEXT_MIPS is the struct for both ABIs
//    and the unwinder has a MIPS64 path keyed on exactly that flag.
// ---------------------------------------------------------------------------------------------

fn mips_dump(arch: u16, cpu_flag: u32, e: Endian) -> Vec<u8> {
    let sc = match e {
        Endian::Big => scroll::BE,
        Endian::Little => scroll::LE,
    };
    let mut ctx = md::CONTEXT_MIPS::default();
    ctx.context_flags = cpu_flag | 0x7;
    ctx.epc = 0x0000_00aa_bbcc_dd00;
    ctx.iregs[md::MipsRegisterNumbers::StackPointer as usize] = 0x0000_007f_ffff_e000;
    let mut buf = vec![0u8; md::CONTEXT_MIPS::size_with(&sc)];
    buf.pwrite_with(ctx, 0, sc).unwrap();
    let context = Section::with_endian(e).append_bytes(&buf);
    let stack = Memory::with_section(
        Section::with_endian(e).append_repeated(0, 64),
        0x0000_007f_ffff_e000,
    );
    let thread = Thread::new(e, 1, &stack, &context);
    SynthMinidump::with_endian(e)
        .add_system_info(
            SystemInfo::new(e)
                .set_processor_architecture(arch)
                .set_platform_id(md::PlatformId::Linux as u32),
        )
        .add_thread(thread)
        .add_memory(stack)
        .add(context)
        .finish()
        .unwrap()
}

fn mips_pc_sp(arch: u16, flag: u32, e: Endian) -> Option<(u64, u64)> {
    let d = Minidump::read(mips_dump(arch, flag, e)).unwrap();
    let sys = d.get_stream::<MinidumpSystemInfo>().unwrap();
    let threads = d.get_stream::<MinidumpThreadList>().unwrap();
    let c = threads.threads[0].context(&sys, None)?;
    assert!(matches!(c.raw, MinidumpRawContext::Mips(_)));
    Some((c.get_instruction_pointer(), c.get_stack_pointer()))
}

#[test]
fn mips64_thread_context_is_unreadable() {
    let want = Some((0x0000_00aa_bbcc_dd00, 0x0000_007f_ffff_e000));
    // control: the same bytes flagged as 32-bit MIPS read back fine in either byte order
    assert_eq!(
        mips_pc_sp(
            md::ProcessorArchitecture::PROCESSOR_ARCHITECTURE_MIPS as u16,
            md::ContextFlagsCpu::CONTEXT_MIPS.bits(),
            Endian::Little
        ),
        want
    );
    assert_eq!(
        mips_pc_sp(
            md::ProcessorArchitecture::PROCESSOR_ARCHITECTURE_MIPS as u16,
            md::ContextFlagsCpu::CONTEXT_MIPS.bits(),
            Endian::Big
        ),
        want
    );
    // MIPS64: MinidumpContext::read answers UnknownCpuContext, the thread has "no context"
    assert_eq!(
        mips_pc_sp(
            md::ProcessorArchitecture::PROCESSOR_ARCHITECTURE_MIPS64 as u16,
            md::ContextFlagsCpu::CONTEXT_MIPS64.bits(),
            Endian::Little
        ),
        want
    );
}

// ---------------------------------------------------------------------------------------------
// 2./3. A module (or unloaded module) whose last byte is 0xffff_ffff_ffff_ffff is dropped from
//    the list as having a "bad image size" (off by one: base + size == 2^64 is fine).
// ---------------------------------------------------------------------------------------------

#[test]
fn module_ending_at_top_of_address_space_is_dropped() {
    for e in [Endian::Little, Endian::Big] {
        let low_name = DumpString::new("low.so", e);
        let low = SynthModule::new(e, 0x1000, 0x1000, &low_name, 1, 2, None);
        let top_name = DumpString::new("top.so", e);
        // occupies 0xffff_ffff_ffff_0000 ..= 0xffff_ffff_ffff_ffff
        let top = SynthModule::new(e, 0xffff_ffff_ffff_0000, 0x1_0000, &top_name, 1, 2, None);
        let d = read(
            SynthMinidump::with_endian(e)
                .add_module(low)
                .add_module(top)
                .add(low_name)
                .add(top_name),
        );
        let l = d.get_stream::<MinidumpModuleList>().unwrap();
        let names: Vec<_> = l.iter().map(|m| m.code_file().to_string()).collect();
        assert_eq!(names, vec!["low.so", "top.so"]);
        for addr in [0xffff_ffff_ffff_0000, u64::MAX] {
            assert_eq!(
                l.module_at_address(addr).map(|m| m.code_file().to_string()),
                Some("top.so".to_string())
            );
        }
    }
}

#[test]
fn unloaded_module_ending_at_top_of_address_space_is_dropped() {
    for e in [Endian::Little, Endian::Big] {
        let name = DumpString::new("top.so", e);
        let m = SynthUnloadedModule::new(e, 0xffff_ffff_ffff_0000, 0x1_0000, &name, 1, 2);
        let d = read(SynthMinidump::with_endian(e).add_unloaded_module(m).add(name));
        let l = d.get_stream::<MinidumpUnloadedModuleList>().unwrap();
        assert_eq!(l.iter().count(), 1);
        assert_eq!(l.modules_at_address(u64::MAX).count(), 1);
    }
}

// ---------------------------------------------------------------------------------------------
// 4. MINIDUMP_MEMORY_INFO_LIST has a 64-bit NumberOfEntries (format.rs declares it so), but the
//    reader takes a u32 at offset 8. In a big-endian dump that is the high half: the list is
//    silently served as empty.
// ---------------------------------------------------------------------------------------------

fn memory_info_dump(e: Endian) -> Vec<u8> {
    let sc = match e {
        Endian::Big => scroll::BE,
        Endian::Little => scroll::LE,
    };
    let mut buf = vec![0u8; 16 + 48 * 3];
    let mut off = 0;
    buf.gwrite_with(
        md::MINIDUMP_MEMORY_INFO_LIST {
            size_of_header: 16,
            size_of_entry: 48,
            number_of_entries: 3,
        },
        &mut off,
        sc,
    )
    .unwrap();
    for i in 0..3u64 {
        buf.gwrite_with(
            md::MINIDUMP_MEMORY_INFO {
                base_address: 0x10000 * (i + 1),
                allocation_base: 0x10000 * (i + 1),
                allocation_protection: 4,
                __alignment1: 0,
                region_size: 0x1000,
                state: 0x1000,
                protection: 4,
                _type: 0x20000,
                __alignment2: 0,
            },
            &mut off,
            sc,
        )
        .unwrap();
    }
    assert_eq!(off, buf.len());
    SynthMinidump::with_endian(e)
        .add_stream(SimpleStream {
            stream_type: md::MINIDUMP_STREAM_TYPE::MemoryInfoListStream as u32,
            section: Section::with_endian(e).append_bytes(&buf),
        })
        .finish()
        .unwrap()
}

#[test]
fn memory_info_list_big_endian_u64_count_reads_as_empty() {
    let le = Minidump::read(memory_info_dump(Endian::Little)).unwrap();
    let be = Minidump::read(memory_info_dump(Endian::Big)).unwrap();
    let le_l = le.get_stream::<MinidumpMemoryInfoList>().unwrap();
    let be_l = be.get_stream::<MinidumpMemoryInfoList>().unwrap();
    let a: Vec<_> = le_l.iter().map(|r| r.raw.clone()).collect();
    let b: Vec<_> = be_l.iter().map(|r| r.raw.clone()).collect();
    assert_eq!(a.len(), 3); // little-endian: fine
    assert_eq!(b, a); // big-endian: [] (and no error)
}

// ---------------------------------------------------------------------------------------------
// 5. One module whose name is not well-formed UTF-16 (an unpaired surrogate, legal in Windows
//    file names) makes the *whole* module list unreadable (Error::CodeViewReadFailure).
// ---------------------------------------------------------------------------------------------

#[test]
fn module_name_with_unpaired_surrogate_fails_whole_module_list() {
    let e = Endian::Little;
    let units: Vec<u16> = vec!['a' as u16, 0xD800, 'b' as u16];
    let good = DumpString::new("good.dll", e);
    let m1 = SynthModule::new(e, 0x1000, 0x1000, &good, 1, 2, None);
    // DumpString only takes &str: lay the dump out with "aXb" and patch X -> U+D800 afterwards.
    let placeholder = DumpString::new("aXb", e);
    let m2 = SynthModule::new(e, 0x4000, 0x1000, &placeholder, 1, 2, None);
    let mut bytes = SynthMinidump::with_endian(e)
        .add_module(m1)
        .add_module(m2)
        .add(good)
        .add(placeholder)
        .finish()
        .unwrap();
    let pat = [b'a', 0, b'X', 0, b'b', 0];
    let pos = bytes.windows(6).position(|w| w == pat).unwrap();
    bytes[pos + 2] = 0x00;
    bytes[pos + 3] = 0xD8;
    let d = Minidump::read(bytes).unwrap();
    let l = d
        .get_stream::<MinidumpModuleList>()
        .expect("the module list must still be readable");
    let names: Vec<String> = l.iter().map(|m| m.code_file().to_string()).collect();
    assert_eq!(
        names,
        vec!["good.dll".to_string(), String::from_utf16_lossy(&units)]
    );
}

// ---------------------------------------------------------------------------------------------
// 6. /proc/<pid>/maps ranges are half-open (`start-end`, end exclusive). MinidumpLinuxMapInfo
//    reports them as inclusive, so of two adjacent mappings the second one "overlaps" the first
//    and is left out of the by-address table altogether.
// ---------------------------------------------------------------------------------------------

#[test]
fn linux_maps_end_address_treated_as_inclusive() {
    let maps = b"00001000-00002000 r-xp 00000000 00:00 0 \n\
                 00002000-00003000 rw-p 00000000 00:00 0 \n";
    let d = read(SynthMinidump::with_endian(Endian::Little).set_linux_maps(maps));
    let l = d.get_stream::<MinidumpLinuxMaps>().unwrap();
    assert_eq!(l.iter().count(), 2);
    // every address of the second mapping belongs to the second mapping
    for addr in [0x2000u64, 0x2800, 0x2fff] {
        let r = l
            .memory_info_at_address(addr)
            .unwrap_or_else(|| panic!("no mapping found for {addr:#x}"));
        assert_eq!(r.map.address, (0x2000, 0x3000), "at {addr:#x}");
    }
    // and the first address after it belongs to none
    assert!(l.memory_info_at_address(0x3000).is_none());
}

// ---------------------------------------------------------------------------------------------
// 7. (low severity) The same regions written as a MemoryList or as a Memory64List do not read
//    back the same: the 32-bit list silently drops a zero-length region, the 64-bit list keeps it.
// ---------------------------------------------------------------------------------------------

#[test]
fn memory_list_drops_zero_size_region_that_memory64_list_keeps() {
    let e = Endian::Little;
    let regions = || {
        vec![
            Memory::with_section(Section::with_endian(e).append_bytes(&[1, 2, 3, 4]), 0x1000),
            Memory::with_section(Section::with_endian(e), 0x2000),
            Memory::with_section(Section::with_endian(e).append_bytes(&[5, 6]), 0x3000),
        ]
    };
    let model = vec![(0x1000u64, 4u64), (0x2000, 0), (0x3000, 2)];

    let mut d64 = SynthMinidump::with_endian(e);
    for m in regions() {
        d64 = d64.add_memory64(m);
    }
    let d64 = read(d64);
    let l64 = d64.get_stream::<MinidumpMemory64List>().unwrap();
    let got64: Vec<_> = l64.iter().map(|r| (r.base_address, r.size)).collect();
    assert_eq!(got64, model);

    let mut d32 = SynthMinidump::with_endian(e);
    for m in regions() {
        d32 = d32.add_memory(m);
    }
    let d32 = read(d32);
    let l32 = d32.get_stream::<MinidumpMemoryList>().unwrap();
    let got32: Vec<_> = l32.iter().map(|r| (r.base_address, r.size)).collect();
    assert_eq!(got32, model);
}
