#![allow(unused_imports)]
use minidump::*;
use minidump_common::format as md;
use minidump_synth::{
    AnnotationValue, CrashpadInfo, DumpString, Exception, HandleDescriptor, Memory, MemoryInfo,
    MiscFieldsBuildString, MiscFieldsTimeZone, MiscInfo5Fields, MiscStream, ModuleCrashpadInfo,
    SynthMinidump, SystemInfo, ThreadName, UnloadedModule,
};
use test_assembler::{Endian, Section};

fn read(d: SynthMinidump) -> Minidump<'static, Vec<u8>> {
    Minidump::read(d.finish().unwrap()).unwrap()
}

#[test]
fn both_endians() {
    for e in [Endian::Little, Endian::Big] {
        // thread names, handles
        let n1 = DumpString::new("thr\u{1F600}ead \u{FEFF}x\0y", e);
        let n2 = DumpString::new("", e);
        let ty = DumpString::new("File", e);
        let ob = DumpString::new("/tmp/\u{10FFFF}", e);
        let h = HandleDescriptor::new(e, 0xdead_beef_0000_0001, Some(&ty), Some(&ob), 1, 2, 3, 4);
        let h2 = HandleDescriptor::new(e, 7, None, None, 0xffff_ffff, 0, 0, 0);
        let un = DumpString::new("unl", e);
        let um = UnloadedModule::new(e, 0xffff_0000_0000_0000, 0xffff_ffff, &un, 0x12345678, 0x9abcdef0);
        let mi = MemoryInfo::new(e, 0xffff_ffff_ffff_f000, 1, 2, 0x1000, 0x1000, 4, 0x20000);
        let mut misc = MiscStream::new(e);
        misc.process_id = Some(0x01020304);
        let mut tz = MiscFieldsTimeZone::default();
        tz.time_zone_id = 2;
        tz.time_zone.bias = -60;
        tz.time_zone.standard_name[0] = 'A' as u16;
        tz.time_zone.standard_name[1] = 0x4e2d;
        misc.time_zone = Some(tz);
        let mut bs = MiscFieldsBuildString::default();
        bs.build_string[0] = 'B' as u16;
        bs.dbg_bld_str[0] = 'd' as u16;
        misc.build_strings = Some(bs);
        let mut m5 = MiscInfo5Fields::default();
        m5.process_cookie = Some(0xa1b2c3d4);
        m5.xstate_data.enabled_features = 0x8000_0000_0000_0005;
        m5.xstate_data.features[63].offset = 0x11223344;
        misc.misc_5 = Some(m5);
        let module = ModuleCrashpadInfo::new(42, e)
            .add_list_annotation("annotation")
            .add_list_annotation("")
            .add_simple_annotation("simple", "module")
            .add_annotation_object("string", AnnotationValue::String("value".to_owned()))
            .add_annotation_object("invalid", AnnotationValue::Invalid)
            .add_annotation_object("custom", AnnotationValue::Custom(0x8001, vec![42]));
        let cp = CrashpadInfo::new(e)
            .report_id(md::GUID { data1: 0x01020304, data2: 0x0506, data3: 0x0708, data4: [9, 10, 11, 12, 13, 14, 15, 16] })
            .add_module(module)
            .add_simple_annotation("simple", "info");
        let mut ex = Exception::new(e);
        ex.thread_id = 0x1234;
        ex.exception_record.exception_code = 0xc0000005;
        ex.exception_record.exception_address = 0xffff_ffff_ffff_ffff;
        ex.exception_record.number_parameters = 15;
        for i in 0..15 { ex.exception_record.exception_information[i] = 0x0101010101010101 * (i as u64 + 1); }
        let d = read(
            SynthMinidump::with_endian(e)
                .add_thread_name(ThreadName::new(e, 1, Some(&n1)))
                .add_thread_name(ThreadName::new(e, 0xffff_ffff, Some(&n2)))
                .add_handle_descriptor(h)
                .add_handle_descriptor(h2)
                .add_unloaded_module(um)
                .add_memory_info(mi)
                .add_stream(misc)
                .add_crashpad_info(cp)
                .add_exception(ex)
                .add_system_info(SystemInfo::new(e))
                .add(n1).add(n2).add(ty).add(ob).add(un),
        );
        let tn = d.get_stream::<MinidumpThreadNames>().unwrap();
        assert_eq!(tn.get_name(1).unwrap(), "thr\u{1F600}ead \u{FEFF}x\0y");
        assert_eq!(tn.get_name(0xffff_ffff).unwrap(), "");
        let hs = d.get_stream::<MinidumpHandleDataStream>().unwrap();
        assert_eq!(hs.handles.len(), 2);
        assert_eq!(hs.handles[0].raw.handle(), Some(&0xdead_beef_0000_0001));
        assert_eq!(hs.handles[0].type_name.as_deref(), Some("File"));
        assert_eq!(hs.handles[0].object_name.as_deref(), Some("/tmp/\u{10FFFF}"));
        assert_eq!(hs.handles[0].raw.pointer_count(), Some(&4));
        assert_eq!(hs.handles[1].type_name, None);
        assert_eq!(hs.handles[1].raw.attributes(), Some(&0xffff_ffff));
        let ul = d.get_stream::<MinidumpUnloadedModuleList>().unwrap();
        let u = ul.iter().next().unwrap();
        assert_eq!(u.raw.base_of_image, 0xffff_0000_0000_0000);
        assert_eq!(u.raw.size_of_image, 0xffff_ffff);
        assert_eq!(u.raw.time_date_stamp, 0x12345678);
        assert_eq!(u.raw.checksum, 0x9abcdef0);
        assert_eq!(u.code_identifier().unwrap().as_str(), "12345678ffffffff");
        let ml = d.get_stream::<MinidumpMemoryInfoList>().unwrap();
        let r = ml.memory_info_at_address(u64::MAX).unwrap();
        assert_eq!(r.raw.base_address, 0xffff_ffff_ffff_f000);
        assert_eq!(r.raw._type, 0x20000);
        let mi = d.get_stream::<MinidumpMiscInfo>().unwrap();
        assert_eq!(mi.raw.process_id(), Some(&0x01020304));
        assert_eq!(mi.raw.process_cookie(), Some(&0xa1b2c3d4));
        assert_eq!(mi.raw.time_zone().unwrap().bias, -60);
        assert_eq!(mi.raw.time_zone().unwrap().standard_name[1], 0x4e2d);
        let x = mi.raw.xstate_data().unwrap();
        let feats: Vec<_> = x.iter().map(|(i, f)| (i, f.offset)).collect();
        assert_eq!(feats, vec![(0, 0), (2, 0), (63, 0x11223344)]);
        let mut out = Vec::new();
        mi.print(&mut out).unwrap();
        let s = String::from_utf8(out).unwrap();
        assert!(s.contains("standard_name = A\u{4e2d}"), "{s}");
        let cp = d.get_stream::<MinidumpCrashpadInfo>().unwrap();
        assert_eq!(cp.raw.report_id.data1, 0x01020304);
        assert_eq!(cp.raw.report_id.data3, 0x0708);
        assert_eq!(cp.simple_annotations["simple"], "info");
        assert_eq!(cp.module_list[0].module_index, 42);
        assert_eq!(cp.module_list[0].list_annotations, vec!["annotation", ""]);
        assert_eq!(cp.module_list[0].annotation_objects["string"], MinidumpAnnotation::String("value".into()));
        let ex = d.get_stream::<MinidumpException>().unwrap();
        assert_eq!(ex.thread_id, 0x1234);
        assert_eq!(ex.raw.exception_record.exception_information[14], 0x0f0f0f0f0f0f0f0f);
        assert_eq!(ex.raw.exception_record.exception_address, u64::MAX);
    }
}
