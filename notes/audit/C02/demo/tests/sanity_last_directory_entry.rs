use minidump::*;
use minidump_synth::{SimpleStream, SynthMinidump, SystemInfo, MiscStream};
use test_assembler::{Endian, Section};

#[test]
fn last_directory_entry_wins() {
    for e in [Endian::Little, Endian::Big] {
        let mut m1 = MiscStream::new(e); m1.process_id = Some(1);
        let mut m2 = MiscStream::new(e); m2.process_id = Some(2);
        let mut m3 = MiscStream::new(e); m3.process_id = Some(3);
        let d = SynthMinidump::with_endian(e)
            .add_stream(m1)
            .add_stream(SimpleStream { stream_type: 0x1234, section: Section::with_endian(e).D32(1) })
            .add_stream(m2)
            .add_stream(SimpleStream { stream_type: 0x1234, section: Section::with_endian(e).D32(2) })
            .add_stream(SystemInfo::new(e).set_processor_architecture(9))
            .add_stream(m3)
            .add_stream(SystemInfo::new(e).set_processor_architecture(12))
            .finish().unwrap();
        let d = Minidump::read(d).unwrap();
        assert_eq!(d.get_stream::<MinidumpMiscInfo>().unwrap().raw.process_id(), Some(&3));
        let raw = d.get_raw_stream(0x1234).unwrap();
        assert_eq!(raw.iter().map(|&b| b as u32).sum::<u32>(), 2);
        assert_eq!(d.get_stream::<MinidumpSystemInfo>().unwrap().raw.processor_architecture, 12);
    }
}
