//! Behaviour that literally contradicts "the same model parses to the same result in either byte
//! order" but looks intentional (it mirrors Breakpad's host-endian GUID convention), so it is NOT
//! counted as a defect. Kept as an executable note; this test fails on the unmodified code.

use minidump::{Minidump, MinidumpModuleList, Module};
use minidump_common::format as md;
use minidump_synth::{DumpString, Module as SynthModule, SynthMinidump};
use test_assembler::{Endian, Section};

fn elf_dump(e: Endian) -> Vec<u8> {
    let name = DumpString::new("libfoo.so", e);
    let id: Vec<u8> = (0u8..20).map(|i| 0x10 + i).collect();
    let cv = Section::with_endian(e)
        .D32(md::CvSignature::Elf as u32)
        .append_bytes(&id);
    let m = SynthModule::new(e, 0x1000, 0x1000, &name, 1, 2, None).cv_record(&cv);
    SynthMinidump::with_endian(e)
        .add_module(m)
        .add(name)
        .add(cv)
        .finish()
        .unwrap()
}

#[test]
fn observation_elf_debug_id_depends_on_dump_byte_order() {
    let le = Minidump::read(elf_dump(Endian::Little)).unwrap();
    let be = Minidump::read(elf_dump(Endian::Big)).unwrap();
    let a = le.get_stream::<MinidumpModuleList>().unwrap();
    let b = be.get_stream::<MinidumpModuleList>().unwrap();
    let a = a.iter().next().unwrap();
    let b = b.iter().next().unwrap();
    assert_eq!(a.code_identifier(), b.code_identifier()); // equal: raw build id bytes
    // LE: 13121110-1514-1716-..., BE: 10111213-1415-1617-...
    assert_eq!(a.debug_identifier(), b.debug_identifier());
}
