// helper crate for audit C02; tests live in tests/
