//! Helpers shared by the C13 audit tests: a symbol supplier whose lookups complete after a
//! configurable number of polls, and a function rendering both reports of a processed dump.

use async_trait::async_trait;
use breakpad_symbols::{
    FileError, FileKind, LocateSymbolsResult, Module, StringSymbolSupplier, SymbolError,
    SymbolSupplier,
};
use std::collections::HashMap;
use std::future::Future;
use std::path::PathBuf;
use std::pin::Pin;
use std::task::{Context, Poll};

/// Returns `Pending` (after waking itself) `n` times, then `Ready`.
pub struct YieldN(pub usize);

impl Future for YieldN {
    type Output = ();
    fn poll(mut self: Pin<&mut Self>, cx: &mut Context<'_>) -> Poll<()> {
        if self.0 == 0 {
            Poll::Ready(())
        } else {
            self.0 -= 1;
            cx.waker().wake_by_ref();
            Poll::Pending
        }
    }
}

/// The stock in-memory supplier, except that the lookup for a module (by code_file) only
/// completes after the given number of polls. The symbols it returns never change.
pub struct DelayedSupplier {
    pub inner: StringSymbolSupplier,
    pub delays: HashMap<String, usize>,
}

impl DelayedSupplier {
    pub fn new(symbols: &[(&str, &str)], delays: &[(&str, usize)]) -> Self {
        DelayedSupplier {
            inner: StringSymbolSupplier::new(
                symbols
                    .iter()
                    .map(|(k, v)| (k.to_string(), v.to_string()))
                    .collect(),
            ),
            delays: delays.iter().map(|(k, v)| (k.to_string(), *v)).collect(),
        }
    }
}

#[async_trait]
impl SymbolSupplier for DelayedSupplier {
    async fn locate_symbols(
        &self,
        module: &(dyn Module + Sync),
    ) -> Result<LocateSymbolsResult, SymbolError> {
        let delay = self
            .delays
            .get(&*module.code_file())
            .copied()
            .unwrap_or(0);
        YieldN(delay).await;
        self.inner.locate_symbols(module).await
    }

    async fn locate_file(
        &self,
        module: &(dyn Module + Sync),
        file_kind: FileKind,
    ) -> Result<PathBuf, FileError> {
        self.inner.locate_file(module, file_kind).await
    }
}

/// (json report, text report)
pub fn reports(state: &minidump_processor::ProcessState) -> (String, String) {
    let mut json = Vec::new();
    state.print_json(&mut json, true).unwrap();
    let mut text = Vec::new();
    state.print(&mut text).unwrap();
    (
        String::from_utf8(json).unwrap(),
        String::from_utf8(text).unwrap(),
    )
}
