use audit_c13_demo::{reports, DelayedSupplier};
use minidump::Minidump;
use minidump_synth::*;
use minidump_unwind::Symbolizer;
use test_assembler::*;

const MOD_A: &str = "/usr/lib/libfoo.so";
const MOD_B: &str = "/opt/app/lib/libfoo.so";

const SYMS_A: &str = "MODULE Linux x86 000000000000000000000000000000000 libfoo.so
FUNC 0 1000 0 func_in_a
";

/// Two threads, two modules. Thread 0 executes in module A (/usr/lib/libfoo.so, symbols exist),
/// thread 1 executes in module B (/opt/app/lib/libfoo.so, no symbols).
fn two_threads_two_same_named_modules() -> Vec<u8> {
    let e = Endian::Little;
    let ctx0 = x86_context(e, 0x1000_0010, 0x2000);
    let ctx1 = x86_context(e, 0x3000_0010, 0x6000);
    let stack0 = Memory::with_section(Section::with_endian(e).append_repeated(0, 0x100), 0x2000);
    let stack1 = Memory::with_section(Section::with_endian(e).append_repeated(0, 0x100), 0x6000);
    let t0 = Thread::new(e, 1, &stack0, &ctx0);
    let t1 = Thread::new(e, 2, &stack1, &ctx1);
    let name_a = DumpString::new(MOD_A, e);
    let name_b = DumpString::new(MOD_B, e);
    let mod_a = Module::new(e, 0x1000_0000, 0x1000, &name_a, 0x1111, 0, None);
    let mod_b = Module::new(e, 0x3000_0000, 0x1000, &name_b, 0x2222, 0, None);
    SynthMinidump::with_endian(e)
        .add_system_info(SystemInfo::new(e))
        .add_thread(t0)
        .add_thread(t1)
        .add(ctx0)
        .add(ctx1)
        .add_memory(stack0)
        .add_memory(stack1)
        .add_module(mod_a)
        .add_module(mod_b)
        .add(name_a)
        .add(name_b)
        .finish()
        .unwrap()
}

async fn run(bytes: &[u8], delays: &[(&str, usize)]) -> (String, String) {
    let dump = Minidump::read(bytes.to_vec()).unwrap();
    let symbolizer = Symbolizer::new(DelayedSupplier::new(&[(MOD_A, SYMS_A)], delays));
    let state = minidump_processor::process_minidump(&dump, &symbolizer)
        .await
        .unwrap();
    reports(&state)
}

/// The same dump and the same symbols; only the completion order of the two symbol lookups
/// (issued by the two concurrently walked threads) differs.
#[tokio::test]
async fn symbol_stats_of_same_named_modules_depend_on_completion_order() {
    let bytes = two_threads_two_same_named_modules();
    // Lookup for A completes first, lookup for B last.
    let (json_1, text_1) = run(&bytes, &[(MOD_A, 0), (MOD_B, 3)]).await;
    // Lookup for B completes first, lookup for A last.
    let (json_2, text_2) = run(&bytes, &[(MOD_A, 3), (MOD_B, 0)]).await;

    // Sanity: the walk itself is the same in both runs.
    assert!(json_1.contains("func_in_a"));
    assert_eq!(text_1, text_2, "text report depends on the schedule");

    // What the report says about the symbols of the two modules.
    fn module_flags(json: &str) -> Vec<(String, bool, bool)> {
        let v: serde_json::Value = serde_json::from_str(json).unwrap();
        v["modules"]
            .as_array()
            .unwrap()
            .iter()
            .map(|m| {
                (
                    m["base_addr"].as_str().unwrap().to_string(),
                    m["loaded_symbols"].as_bool().unwrap(),
                    m["missing_symbols"].as_bool().unwrap(),
                )
            })
            .collect()
    }
    assert_eq!(
        module_flags(&json_1),
        module_flags(&json_2),
        "(base_addr, loaded_symbols, missing_symbols) of the modules depend on which lookup \
         completed last"
    );
    assert!(json_1 == json_2, "JSON report depends on the schedule");
}
