// Exploratory differential harness (not a finding by itself): many threads, many modules with
// distinct names, random completion delays; all reports must be identical.
use audit_c13_demo::{reports, DelayedSupplier};
use minidump::Minidump;
use minidump_synth::*;
use minidump_unwind::Symbolizer;
use test_assembler::*;

struct Lcg(u64);
impl Lcg {
    fn next(&mut self) -> u64 {
        self.0 = self.0.wrapping_mul(6364136223846793005).wrapping_add(1442695040888963407);
        self.0 >> 33
    }
}

fn build(nthreads: usize, nmods: usize, seed: u64) -> (Vec<u8>, Vec<(String, String)>) {
    let e = Endian::Little;
    let mut rng = Lcg(seed);
    let mut dump = SynthMinidump::with_endian(e).add_system_info(
        SystemInfo::new(e).set_processor_architecture(9).set_platform_id(0x8201),
    );
    let mut syms = vec![];
    for m in 0..nmods {
        let name = format!("/lib/dir{m}/libmod{m}.so");
        let ds = DumpString::new(&name, e);
        let base = 0x1000_0000u64 * (m as u64 + 1);
        let module = Module::new(e, base, 0x10000, &ds, 0x1000 + m as u32, 0, None);
        dump = dump.add_module(module).add(ds);
        if m % 3 != 2 {
            let mut s = format!("MODULE Linux x86_64 000000000000000000000000000000000 libmod{m}.so\nFILE 0 src{m}.c\n");
            for f in 0..8u64 {
                let a = f * 0x1000;
                s += &format!("FUNC {a:x} 800 0 fn_{m}_{f}\n{a:x} 800 {} 0\n", 10 + f);
                if m % 2 == 0 {
                    s += &format!("STACK CFI INIT {a:x} 800 .cfa: $rsp 16 + .ra: .cfa 8 - ^ $rbp: .cfa 16 - ^ $rbx: $rbx\n");
                    s += &format!("STACK CFI {:x} .cfa: $rsp 32 +\n", a + 0x400);
                }
            }
            syms.push((name, s));
        }
    }
    for t in 0..nthreads {
        let sp = 0x7000_0000u64 + (t as u64) * 0x10000;
        let m = rng.next() as usize % nmods;
        let rip = 0x1000_0000u64 * (m as u64 + 1) + (rng.next() % 0x10000);
        let ctx = amd64_context(e, rip, sp);
        let mut sec = Section::with_endian(e);
        for _ in 0..64 {
            let r = rng.next();
            let v = match r % 4 {
                0 => 0x1000_0000u64 * ((rng.next() % nmods as u64) + 1) + (rng.next() % 0x10000),
                1 => sp + (rng.next() % 0x200),
                2 => 0,
                _ => rng.next(),
            };
            sec = sec.D64(v);
        }
        let stack = Memory::with_section(sec, sp);
        let th = Thread::new(e, 100 + t as u32, &stack, &ctx);
        dump = dump.add_thread(th).add(ctx).add_memory(stack);
    }
    (dump.finish().unwrap(), syms)
}

async fn run(bytes: &[u8], syms: &[(String, String)], delays: &[(String, usize)]) -> (String, String) {
    let dump = Minidump::read(bytes.to_vec()).unwrap();
    let s: Vec<(&str, &str)> = syms.iter().map(|(a, b)| (a.as_str(), b.as_str())).collect();
    let d: Vec<(&str, usize)> = delays.iter().map(|(a, b)| (a.as_str(), *b)).collect();
    let symbolizer = Symbolizer::new(DelayedSupplier::new(&s, &d));
    let mut opts = minidump_processor::ProcessorOptions::unstable_all();
    opts.recover_function_args = true;
    let state = minidump_processor::process_minidump_with_options(&dump, &symbolizer, opts)
        .await
        .unwrap();
    reports(&state)
}

#[tokio::test(flavor = "multi_thread", worker_threads = 4)]
async fn explore_random_schedules() {
    for (nthreads, nmods) in [(3usize, 4usize), (8, 6), (40, 7)] {
        for seed in 0..6u64 {
            let (bytes, syms) = build(nthreads, nmods, seed + 1);
            let base = run(&bytes, &syms, &[]).await;
            let frames = base.0.matches("\"trust\"").count();
            println!("threads {nthreads} mods {nmods} seed {seed}: {} frames, cfi {}", frames, base.0.matches("\"cfi\"").count());
            let mut rng = Lcg(seed * 77 + 5);
            for _ in 0..12 {
                let delays: Vec<(String, usize)> = (0..nmods)
                    .map(|m| (format!("/lib/dir{m}/libmod{m}.so"), (rng.next() % 7) as usize))
                    .collect();
                let other = run(&bytes, &syms, &delays).await;
                assert_eq!(base.1, other.1, "text differs with delays {delays:?}");
                assert_eq!(base.0, other.0, "json differs with delays {delays:?}");
            }
        }
    }
}
