// scratch crate for C06 audit
