//! Confirming tests for the C06 audit (STACK CFI rules evaluate exactly as the documented
//! postfix language). Every test goes through public APIs only and asserts what the property
//! demands, so it FAILS on the unmodified tree.

use minidump::format::{CONTEXT_ARM, CONTEXT_ARM64};
use minidump::system_info::{Cpu, Os};
use minidump::{
    CpuContext, MinidumpContext, MinidumpContextValidity, MinidumpMemory, MinidumpModule,
    MinidumpModuleList, MinidumpRawContext, UnifiedMemory,
};
use minidump_unwind::{
    string_symbol_supplier, walk_stack, CallStack, FrameTrust, Symbolizer, SystemInfo,
};
use std::collections::HashMap;

fn system_info(cpu: Cpu) -> SystemInfo {
    SystemInfo {
        os: Os::Linux,
        os_version: None,
        os_build: None,
        cpu,
        cpu_info: None,
        cpu_microcode_version: None,
        cpu_count: 1,
    }
}

/// Unwind one thread whose context frame is `raw`, with `stack` as the stack memory starting at
/// `stack_base`, and `sym` as the symbol file of "module1" (mapped at 0x40000000).
async fn unwind(raw: MinidumpRawContext, cpu: Cpu, stack_base: u64, stack: &[u8], sym: &str) -> CallStack {
    let context = MinidumpContext {
        raw,
        valid: MinidumpContextValidity::All,
    };
    let modules = MinidumpModuleList::from_modules(vec![
        MinidumpModule::new(0x40000000, 0x10000, "module1"),
        MinidumpModule::new(0x50000000, 0x10000, "module2"),
    ]);
    let stack_memory = MinidumpMemory {
        desc: Default::default(),
        base_address: stack_base,
        size: stack.len() as u64,
        bytes: stack,
        endian: scroll::LE,
    };
    let mut symbols = HashMap::new();
    symbols.insert(
        String::from("module1"),
        format!("MODULE Linux arm64 000000000000000000000000000000000 module1\n{sym}"),
    );
    let symbolizer = Symbolizer::new(string_symbol_supplier(symbols));
    let mut call_stack = CallStack::with_context(context);
    walk_stack(
        0,
        (),
        &mut call_stack,
        Some(UnifiedMemory::Memory(&stack_memory)),
        &modules,
        &system_info(cpu),
        &symbolizer,
    )
    .await;
    call_stack
}

fn valid_reg(frame: &minidump_unwind::StackFrame, name: &str) -> Option<u64> {
    match &frame.context.raw {
        MinidumpRawContext::Arm64(ctx) => ctx.get_register(name, &frame.context.valid),
        MinidumpRawContext::Arm(ctx) => ctx
            .get_register(name, &frame.context.valid)
            .map(u64::from),
        _ => unreachable!(),
    }
}

/// A delta record that spells the frame pointer `fp` must override the INIT record's rule for
/// the same register spelled `x29` (later records override earlier ones).
#[tokio::test]
async fn arm64_delta_rule_under_alias_name_does_not_override_init_rule() {
    let mut raw = CONTEXT_ARM64::default();
    raw.pc = 0x40004010;
    raw.sp = 0x80000000;
    raw.iregs[30] = 0x50000100; // lr: the return address
    let stack = vec![0u8; 0x40];
    let sym = "STACK CFI INIT 4000 100 .cfa: sp 16 + .ra: x30 x29: 4369\n\
               STACK CFI 4008 fp: 8738\n";
    let s = unwind(MinidumpRawContext::Arm64(raw), Cpu::Arm64, 0x80000000, &stack, sym).await;
    assert_eq!(s.frames.len(), 2);
    let caller = &s.frames[1];
    assert_eq!(caller.trust, FrameTrust::CallFrameInfo);
    assert_eq!(valid_reg(caller, "sp"), Some(0x80000010));
    // The record at 4008 is the later one and it applies at 4010: the caller's frame pointer is
    // 8738 (0x2222), not the INIT record's 4369 (0x1111).
    assert_eq!(valid_reg(caller, "fp"), Some(8738));
}

/// The same for 32-bit ARM: `r11` in the INIT record, `fp` in the delta record.
#[tokio::test]
async fn arm_delta_rule_under_alias_name_does_not_override_init_rule() {
    let mut raw = CONTEXT_ARM::default();
    raw.iregs[15] = 0x40004010; // pc
    raw.iregs[13] = 0x80000000; // sp
    raw.iregs[14] = 0x50000100; // lr
    let stack = vec![0u8; 0x40];
    let sym = "STACK CFI INIT 4000 100 .cfa: sp 16 + .ra: lr r11: 4369\n\
               STACK CFI 4008 fp: 8738\n";
    let s = unwind(MinidumpRawContext::Arm(raw), Cpu::Arm, 0x80000000, &stack, sym).await;
    assert_eq!(s.frames.len(), 2);
    let caller = &s.frames[1];
    assert_eq!(caller.trust, FrameTrust::CallFrameInfo);
    assert_eq!(valid_reg(caller, "fp"), Some(8738));
}

/// The "marked unknown when its rule fails" clause under the same aliasing: the delta record
/// declares the frame pointer undefined (`fp: .undef`), so the caller's frame pointer must be
/// unknown - instead the INIT record's stale `x29` rule is evaluated after it and restores it.
#[tokio::test]
async fn arm64_undef_rule_under_alias_name_is_undone_by_stale_init_rule() {
    let mut raw = CONTEXT_ARM64::default();
    raw.pc = 0x40004010;
    raw.sp = 0x80000000;
    raw.iregs[30] = 0x50000100;
    let stack = vec![0u8; 0x40];
    let sym = "STACK CFI INIT 4000 100 .cfa: sp 16 + .ra: x30 x29: 4369\n\
               STACK CFI 4008 fp: .undef\n";
    let s = unwind(MinidumpRawContext::Arm64(raw), Cpu::Arm64, 0x80000000, &stack, sym).await;
    assert_eq!(s.frames.len(), 2);
    let caller = &s.frames[1];
    assert_eq!(caller.trust, FrameTrust::CallFrameInfo);
    assert_eq!(valid_reg(caller, "fp"), None);
}
