//! Exploratory: reference model of a STACK CFI unwind step vs `minidump_unwind::walk_stack`,
//! for every architecture that has an unwinder.

use minidump::format::*;
use minidump::system_info::{Cpu, Os};
use minidump::{
    CpuContext, MinidumpContext, MinidumpContextValidity, MinidumpMemory, MinidumpModule,
    MinidumpModuleList, MinidumpRawContext, UnifiedMemory,
};
use minidump_unwind::{
    string_symbol_supplier, walk_stack, CallStack, FrameTrust, Symbolizer, SystemInfo,
};
use std::collections::{BTreeMap, BTreeSet, HashMap};

struct Arch {
    name: &'static str,
    cpu: Cpu,
    width: u32,
    regs: &'static [&'static str],
    sp: &'static str,
    pc: &'static str,
    callee_saved: &'static [&'static str],
    leaf_ok: bool,
    strip: &'static [&'static str],
    make: fn(&BTreeMap<&'static str, u64>) -> MinidumpRawContext,
}

fn mk_amd64(r: &BTreeMap<&'static str, u64>) -> MinidumpRawContext {
    let mut c = CONTEXT_AMD64::default();
    for (k, v) in r {
        c.set_register(k, *v).unwrap();
    }
    MinidumpRawContext::Amd64(c)
}
fn mk_x86(r: &BTreeMap<&'static str, u64>) -> MinidumpRawContext {
    let mut c = CONTEXT_X86::default();
    for (k, v) in r {
        c.set_register(k, *v as u32).unwrap();
    }
    MinidumpRawContext::X86(c)
}
fn mk_arm(r: &BTreeMap<&'static str, u64>) -> MinidumpRawContext {
    let mut c = CONTEXT_ARM::default();
    for (k, v) in r {
        c.set_register(k, *v as u32).unwrap();
    }
    MinidumpRawContext::Arm(c)
}
fn mk_arm64(r: &BTreeMap<&'static str, u64>) -> MinidumpRawContext {
    let mut c = CONTEXT_ARM64::default();
    for (k, v) in r {
        c.set_register(k, *v).unwrap();
    }
    MinidumpRawContext::Arm64(c)
}
fn mk_arm64_old(r: &BTreeMap<&'static str, u64>) -> MinidumpRawContext {
    let mut c = CONTEXT_ARM64_OLD::default();
    for (k, v) in r {
        c.set_register(k, *v).unwrap();
    }
    MinidumpRawContext::OldArm64(c)
}
fn mk_mips32(r: &BTreeMap<&'static str, u64>) -> MinidumpRawContext {
    let mut c = CONTEXT_MIPS::default();
    c.context_flags = ContextFlagsCpu::CONTEXT_MIPS.bits();
    for (k, v) in r {
        c.set_register(k, *v).unwrap();
    }
    MinidumpRawContext::Mips(c)
}
fn mk_mips64(r: &BTreeMap<&'static str, u64>) -> MinidumpRawContext {
    let mut c = CONTEXT_MIPS::default();
    c.context_flags = ContextFlagsCpu::CONTEXT_MIPS64.bits();
    for (k, v) in r {
        c.set_register(k, *v).unwrap();
    }
    MinidumpRawContext::Mips(c)
}

const ARM64_REGS: &[&str] = &[
    "x0", "x1", "x2", "x3", "x4", "x5", "x6", "x7", "x8", "x9", "x10", "x11", "x12", "x13", "x14",
    "x15", "x16", "x17", "x18", "x19", "x20", "x21", "x22", "x23", "x24", "x25", "x26", "x27",
    "x28", "fp", "lr", "sp", "pc",
];
const ARM64_SAVED: &[&str] = &[
    "x19", "x20", "x21", "x22", "x23", "x24", "x25", "x26", "x27", "x28", "fp",
];
const MIPS_REGS: &[&str] = &[
    "gp", "sp", "fp", "ra", "pc", "s0", "s1", "s2", "s3", "s4", "s5", "s6", "s7",
];
const MIPS_SAVED: &[&str] = &[
    "s0", "s1", "s2", "s3", "s4", "s5", "s6", "s7", "gp", "sp", "fp",
];

fn arches() -> Vec<Arch> {
    vec![
        Arch {
            name: "amd64",
            cpu: Cpu::X86_64,
            width: 8,
            regs: &[
                "rax", "rdx", "rcx", "rbx", "rsi", "rdi", "rbp", "rsp", "r8", "r9", "r10", "r11",
                "r12", "r13", "r14", "r15", "rip",
            ],
            sp: "rsp",
            pc: "rip",
            callee_saved: &["rbx", "rbp", "r12", "r13", "r14", "r15"],
            leaf_ok: false,
            strip: &[],
            make: mk_amd64,
        },
        Arch {
            name: "x86",
            cpu: Cpu::X86,
            width: 4,
            regs: &[
                "eip", "esp", "ebp", "ebx", "esi", "edi", "eax", "ecx", "edx", "eflags",
            ],
            sp: "esp",
            pc: "eip",
            callee_saved: &["ebp", "ebx", "edi", "esi"],
            leaf_ok: false,
            strip: &[],
            make: mk_x86,
        },
        Arch {
            name: "arm",
            cpu: Cpu::Arm,
            width: 4,
            regs: &[
                "r0", "r1", "r2", "r3", "r4", "r5", "r6", "r7", "r8", "r9", "r10", "r12", "fp",
                "sp", "lr", "pc",
            ],
            sp: "sp",
            pc: "pc",
            callee_saved: &["r4", "r5", "r6", "r7", "r8", "r9", "r10", "fp"],
            leaf_ok: true,
            strip: &[],
            make: mk_arm,
        },
        Arch {
            name: "arm64",
            cpu: Cpu::Arm64,
            width: 8,
            regs: ARM64_REGS,
            sp: "sp",
            pc: "pc",
            callee_saved: ARM64_SAVED,
            leaf_ok: true,
            strip: &["pc", "lr", "fp"],
            make: mk_arm64,
        },
        Arch {
            name: "arm64_old",
            cpu: Cpu::Arm64,
            width: 8,
            regs: ARM64_REGS,
            sp: "sp",
            pc: "pc",
            callee_saved: ARM64_SAVED,
            leaf_ok: true,
            strip: &["pc", "lr", "fp"],
            make: mk_arm64_old,
        },
        Arch {
            name: "mips32",
            cpu: Cpu::Mips,
            width: 4,
            regs: MIPS_REGS,
            sp: "sp",
            pc: "pc",
            callee_saved: MIPS_SAVED,
            leaf_ok: true,
            strip: &[],
            make: mk_mips32,
        },
        Arch {
            name: "mips64",
            cpu: Cpu::Mips64,
            width: 8,
            regs: MIPS_REGS,
            sp: "sp",
            pc: "pc",
            callee_saved: MIPS_SAVED,
            leaf_ok: true,
            strip: &[],
            make: mk_mips64,
        },
    ]
}

const STACK_BASE: u64 = 0x8000_0000;
const STACK_LEN: usize = 0x100;

fn read_mem(stack: &[u8], width: u32, addr: u64) -> Option<u64> {
    let off = addr.checked_sub(STACK_BASE)?;
    let end = off.checked_add(width as u64)?;
    if end > stack.len() as u64 {
        return None;
    }
    let mut v = 0u64;
    for i in 0..width as usize {
        v |= (stack[off as usize + i] as u64) << (8 * i);
    }
    Some(v)
}

fn parse_int(tok: &str) -> Option<u64> {
    let (neg, digits) = if let Some(d) = tok.strip_prefix('-') {
        (true, d)
    } else if let Some(d) = tok.strip_prefix('+') {
        (false, d)
    } else {
        (false, tok)
    };
    if digits.is_empty() || !digits.bytes().all(|b| b.is_ascii_digit()) {
        return None;
    }
    let mut v: u128 = 0;
    for b in digits.bytes() {
        v = v * 10 + (b - b'0') as u128;
        if v > (1u128 << 64) {
            return None;
        }
    }
    if neg {
        if v > (1u128 << 63) {
            return None;
        }
        Some((v as u64).wrapping_neg())
    } else {
        if v >= (1u128 << 63) {
            return None;
        }
        Some(v as u64)
    }
}

fn ref_eval(
    expr: &[&str],
    callee: &BTreeMap<&'static str, u64>,
    stack: &[u8],
    width: u32,
    cfa: Option<u64>,
) -> Option<u64> {
    let mut st: Vec<u64> = vec![];
    for &t in expr {
        match t {
            "+" | "-" | "*" | "/" | "%" | "@" => {
                let r = st.pop()?;
                let l = st.pop()?;
                st.push(match t {
                    "+" => l.wrapping_add(r),
                    "-" => l.wrapping_sub(r),
                    "*" => l.wrapping_mul(r),
                    "/" => l.checked_div(r)?,
                    "%" => l.checked_rem(r)?,
                    "@" => {
                        if r.count_ones() != 1 {
                            return None;
                        }
                        l - (l % r)
                    }
                    _ => unreachable!(),
                });
            }
            "^" => {
                let p = st.pop()?;
                st.push(read_mem(stack, width, p)?);
            }
            ".cfa" => st.push(cfa?),
            ".undef" => return None,
            _ => {
                if let Some(r) = t.strip_prefix('$') {
                    st.push(*callee.get(r)?);
                } else if let Some(v) = parse_int(t) {
                    st.push(v);
                } else {
                    st.push(*callee.get(t)?);
                }
            }
        }
    }
    if st.len() == 1 {
        st.pop()
    } else {
        None
    }
}

#[derive(Debug, PartialEq, Eq)]
enum Expect {
    CfiFails,
    NoFrame,
    Frame(BTreeMap<&'static str, Option<u64>>),
}

fn fits(width: u32, v: u64) -> bool {
    width == 8 || v <= u32::MAX as u64
}

fn ref_unwind(
    arch: &Arch,
    lines: &[(u64, String)],
    addr: u64,
    callee: &BTreeMap<&'static str, u64>,
    stack: &[u8],
) -> Expect {
    let inner = || -> Option<Expect> {
        let init = &lines[0];
        let mut deltas: Vec<&(u64, String)> = lines[1..].iter().filter(|l| l.0 <= addr).collect();
        deltas.sort_by_key(|l| l.0);
        let mut all = vec![init];
        all.extend(deltas);
        let mut map: BTreeMap<String, Vec<&str>> = BTreeMap::new();
        for l in all {
            let mut cur: Option<(String, Vec<&str>)> = None;
            for t in l.1.split_ascii_whitespace() {
                if let Some(name) = t.strip_suffix(':') {
                    if let Some(c) = cur.take() {
                        if c.1.is_empty() {
                            return None;
                        }
                        map.insert(c.0, c.1);
                    }
                    let name = if name == ".cfa" || name == ".ra" {
                        name
                    } else {
                        name.strip_prefix('$').unwrap_or(name)
                    };
                    cur = Some((name.to_string(), vec![]));
                } else {
                    cur.as_mut()?.1.push(t);
                }
            }
            let c = cur?;
            if c.1.is_empty() {
                return None;
            }
            map.insert(c.0, c.1);
        }
        let cfa_e = map.remove(".cfa")?;
        let ra_e = map.remove(".ra")?;
        let cfa = ref_eval(&cfa_e, callee, stack, arch.width, None)?;
        let ra = ref_eval(&ra_e, callee, stack, arch.width, Some(cfa))?;
        if !fits(arch.width, cfa) || !fits(arch.width, ra) {
            return None;
        }
        let mut raw = callee.clone();
        let mut valid: BTreeSet<&'static str> = arch.callee_saved.iter().copied().collect();
        raw.insert(arch.sp, cfa);
        valid.insert(arch.sp);
        raw.insert(arch.pc, ra);
        valid.insert(arch.pc);
        for (n, e) in map {
            let Some(&name) = arch.regs.iter().find(|r| **r == n) else {
                continue;
            };
            match ref_eval(&e, callee, stack, arch.width, Some(cfa)) {
                Some(v) if fits(arch.width, v) => {
                    raw.insert(name, v);
                    valid.insert(name);
                }
                _ => {
                    valid.remove(name);
                }
            }
        }
        let mask = (1u64 << 47) - 1;
        for s in arch.strip {
            if *s == arch.pc || valid.contains(s) {
                let v = raw[s] & mask;
                raw.insert(s, v);
            }
        }
        let ip = raw[arch.pc];
        if ip < 4096 {
            return Some(Expect::NoFrame);
        }
        let spv = raw[arch.sp];
        let last = callee[arch.sp];
        if spv <= last && !(arch.leaf_ok && spv == last) {
            return Some(Expect::NoFrame);
        }
        let mut out = BTreeMap::new();
        for r in arch.regs {
            out.insert(*r, if valid.contains(r) { Some(raw[r]) } else { None });
        }
        Some(Expect::Frame(out))
    };
    inner().unwrap_or(Expect::CfiFails)
}

async fn real_unwind(
    arch: &Arch,
    lines: &[(u64, String)],
    callee: &BTreeMap<&'static str, u64>,
    stack: &[u8],
) -> CallStack {
    let context = MinidumpContext {
        raw: (arch.make)(callee),
        valid: MinidumpContextValidity::All,
    };
    let modules = MinidumpModuleList::from_modules(vec![
        MinidumpModule::new(0x40000000, 0x10000, "module1"),
        MinidumpModule::new(0x50000000, 0x10000, "module2"),
    ]);
    let stack_memory = MinidumpMemory {
        desc: Default::default(),
        base_address: STACK_BASE,
        size: stack.len() as u64,
        bytes: stack,
        endian: scroll::LE,
    };
    let mut s = String::from("MODULE Linux x 000000000000000000000000000000000 module1\n");
    s += &format!("STACK CFI INIT {:x} 100 {}\n", lines[0].0, lines[0].1);
    for l in &lines[1..] {
        s += &format!("STACK CFI {:x} {}\n", l.0, l.1);
    }
    let mut symbols = HashMap::new();
    symbols.insert(String::from("module1"), s);
    let symbolizer = Symbolizer::new(string_symbol_supplier(symbols));
    let mut call_stack = CallStack::with_context(context);
    let system_info = SystemInfo {
        os: Os::Linux,
        os_version: None,
        os_build: None,
        cpu: arch.cpu,
        cpu_info: None,
        cpu_microcode_version: None,
        cpu_count: 1,
    };
    walk_stack(
        0,
        (),
        &mut call_stack,
        Some(UnifiedMemory::Memory(&stack_memory)),
        &modules,
        &system_info,
        &symbolizer,
    )
    .await;
    call_stack
}

struct Rng(u64);
impl Rng {
    fn next(&mut self) -> u64 {
        self.0 ^= self.0 << 13;
        self.0 ^= self.0 >> 7;
        self.0 ^= self.0 << 17;
        self.0
    }
    fn below(&mut self, n: usize) -> usize {
        (self.next() % n as u64) as usize
    }
}

const LITS: &[&str] = &[
    "0",
    "1",
    "2",
    "4",
    "8",
    "16",
    "24",
    "-8",
    "-4",
    "-1",
    "3",
    "4294967295",
    "4294967296",
    "2147483648",
    "1342177536",
    "9223372036854775807",
    "-9223372036854775808",
    "9223372036854775808",
    "140737488355328",
];
const OPS: &[&str] = &["+", "-", "*", "/", "%", "@", "^", "^", "+", "-"];
const MISC: &[&str] = &[".cfa", ".cfa", ".undef", ".ra", "junk", "$", "$nope"];

fn gen_expr(rng: &mut Rng, arch: &Arch, allow_cfa: bool) -> String {
    let n = 1 + rng.below(6);
    let mut toks: Vec<String> = vec![];
    for _ in 0..n {
        match rng.below(10) {
            0..=2 => toks.push(LITS[rng.below(LITS.len())].to_string()),
            3..=5 => toks.push(OPS[rng.below(OPS.len())].to_string()),
            6..=7 => {
                let r = arch.regs[rng.below(arch.regs.len())];
                if rng.below(2) == 0 {
                    toks.push(format!("${r}"));
                } else {
                    toks.push(r.to_string());
                }
            }
            _ => {
                let m = MISC[rng.below(MISC.len())];
                if m == ".cfa" && !allow_cfa && rng.below(4) != 0 {
                    toks.push("8".to_string());
                } else {
                    toks.push(m.to_string());
                }
            }
        }
    }
    toks.join(" ")
}

#[tokio::test]
async fn cross_arch_differential() {
    let mut rng = Rng(0xfeed_f00d_1234_5679);
    let mut stack = vec![0u8; STACK_LEN];
    for (i, b) in stack.iter_mut().enumerate() {
        *b = (i as u8).wrapping_mul(37).wrapping_add(11);
    }
    // a few meaningful words
    for (off, val) in [(0x20usize, 0x50000100u64), (0x28, 0x8000_0040), (0x30, 0x50000200)] {
        stack[off..off + 8].copy_from_slice(&val.to_le_bytes());
    }
    let mut bad = vec![];
    let mut frames_ok = 0;
    let only = std::env::var("ARCH").ok();
    for arch in arches() {
        if let Some(o) = &only { if o != arch.name { continue; } }
        for iter in 0..6000 {
            let mut callee: BTreeMap<&'static str, u64> = BTreeMap::new();
            for r in arch.regs {
                let v = match rng.below(5) {
                    0 => 0,
                    1 => STACK_BASE + 8 * rng.below(0x20) as u64,
                    2 => rng.next(),
                    3 => 0x50000000 + rng.below(0x1000) as u64,
                    _ => rng.next() & 0xffff,
                };
                callee.insert(r, if arch.width == 4 { v & 0xffff_ffff } else { v });
            }
            callee.insert(arch.sp, STACK_BASE + 0x20);
            callee.insert(arch.pc, 0x40004010);
            let sp_tok = if arch.name == "amd64" || arch.name == "x86" || arch.name.starts_with("mips") {
                format!("${}", arch.sp)
            } else {
                arch.sp.to_string()
            };
            let nlines = 1 + rng.below(3);
            let mut lines = vec![];
            for li in 0..nlines {
                let addr = if li == 0 { 0x4000 } else { 0x4008 + rng.below(0x10) as u64 };
                let mut s = String::new();
                if li == 0 || rng.below(3) == 0 {
                    if rng.below(8) == 0 {
                        s += &format!(".cfa: {} ", gen_expr(&mut rng, &arch, false));
                    } else {
                        s += &format!(".cfa: {sp_tok} {} + ", ["16", "8", "0", "32", "-8"][rng.below(5)]);
                    }
                }
                if li == 0 || rng.below(3) == 0 {
                    if rng.below(8) == 0 {
                        s += &format!(".ra: {} ", gen_expr(&mut rng, &arch, true));
                    } else {
                        s += [".ra: .cfa 16 - ^ ", ".ra: 1342177536 ", ".ra: .cfa -16 + ^ "][rng.below(3)];
                    }
                }
                let nrules = rng.below(4) + if s.is_empty() { 1 } else { 0 };
                for _ in 0..nrules {
                    // avoid alias spellings in REG position (known finding), keep canonical names
                    let r = arch.regs[rng.below(arch.regs.len())];
                    let label = if rng.below(2) == 0 { format!("${r}:") } else { format!("{r}:") };
                    s += &format!("{label} {} ", gen_expr(&mut rng, &arch, true));
                }
                lines.push((addr, s.trim_end().to_string()));
            }
            let expect = ref_unwind(&arch, &lines, 0x4010, &callee, &stack);
            if let Expect::Frame(regs) = &expect {
                let pc = regs[arch.pc].unwrap_or(0);
                if (0x40003ff0..0x40004200).contains(&pc) {
                    // would re-enter the same CFI table (possibly forever); skip
                    continue;
                }
            }
            let cs = real_unwind(&arch, &lines, &callee, &stack).await;
            let got = if cs.frames.len() < 2 {
                None
            } else {
                Some(&cs.frames[1])
            };
            let ok = match &expect {
                Expect::CfiFails => got.map_or(true, |f| f.trust != FrameTrust::CallFrameInfo),
                Expect::NoFrame => got.is_none(),
                Expect::Frame(regs) => match got {
                    None => false,
                    Some(f) => {
                        f.trust == FrameTrust::CallFrameInfo
                            && regs.iter().all(|(r, v)| f.context.get_register(r) == *v)
                    }
                },
            };
            if let Expect::Frame(_) = expect {
                frames_ok += 1;
            }
            if !ok && bad.len() < 12 {
                let gotd = got.map(|f| {
                    (
                        f.trust,
                        arch.regs
                            .iter()
                            .map(|r| (*r, f.context.get_register(r)))
                            .collect::<Vec<_>>(),
                    )
                });
                bad.push(format!(
                    "[{} #{iter}] {:?}\n callee {:x?}\n expect {:x?}\n got {:x?}\n",
                    arch.name, lines, callee, expect, gotd
                ));
            }
        }
    }
    eprintln!("{frames_ok} cases expected a CFI frame");
    assert!(bad.is_empty(), "{}", bad.join("\n"));
}
