//! NOT a C06 finding (the property does not speak about the frame loop), kept only as a record
//! of something the differential run tripped over: a CFI table whose return-address rule yields
//! the callee's own pc again (`.ra: $rip`) and whose CFA needs no memory (`.cfa: $rsp 16 +`)
//! makes `walk_stack` push frames without bound (the differential test died of memory
//! exhaustion). The walk has no frame limit and CFI results are never checked against the
//! stack memory's range.

use minidump::format::CONTEXT_AMD64;
use minidump::system_info::{Cpu, Os};
use minidump::{
    MinidumpContext, MinidumpContextValidity, MinidumpMemory, MinidumpModule, MinidumpModuleList,
    MinidumpRawContext, UnifiedMemory,
};
use minidump_unwind::{string_symbol_supplier, walk_stack, CallStack, Symbolizer, SystemInfo};
use std::collections::HashMap;

#[tokio::test]
async fn self_returning_cfi_table_walks_without_bound() {
    let mut raw = CONTEXT_AMD64::default();
    raw.rip = 0x40004010;
    raw.rsp = 0x80000000;
    let context = MinidumpContext {
        raw: MinidumpRawContext::Amd64(raw),
        valid: MinidumpContextValidity::All,
    };
    let modules =
        MinidumpModuleList::from_modules(vec![MinidumpModule::new(0x40000000, 0x10000, "module1")]);
    let stack = vec![0u8; 0x100];
    let stack_memory = MinidumpMemory {
        desc: Default::default(),
        base_address: 0x80000000,
        size: stack.len() as u64,
        bytes: &stack,
        endian: scroll::LE,
    };
    let mut symbols = HashMap::new();
    symbols.insert(
        String::from("module1"),
        String::from(
            "MODULE Linux x86_64 000000000000000000000000000000000 module1\n\
             STACK CFI INIT 4000 100 .cfa: $rsp 16 + .ra: $rip\n",
        ),
    );
    let symbolizer = Symbolizer::new(string_symbol_supplier(symbols));
    let mut call_stack = CallStack::with_context(context);
    let system_info = SystemInfo {
        os: Os::Linux,
        os_version: None,
        os_build: None,
        cpu: Cpu::X86_64,
        cpu_info: None,
        cpu_microcode_version: None,
        cpu_count: 1,
    };
    // The stack memory is 0x100 bytes: 16 frames of 16 bytes at the very most.
    let on_frame = |idx: usize, _frame: &minidump_unwind::StackFrame| {
        assert!(idx < 100_000, "walk_stack is still producing frames after 100000 of them");
    };
    walk_stack(
        0,
        on_frame,
        &mut call_stack,
        Some(UnifiedMemory::Memory(&stack_memory)),
        &modules,
        &system_info,
        &symbolizer,
    )
    .await;
    assert!(call_stack.frames.len() <= 17);
}

/// Also not a C06 finding (about the record grammar, not about evaluation): walker.rs documents
/// `num_bytes` of STACK CFI INIT as "hex u64", but the parser reads at most 8 hex digits, so one
/// record with a size of 2^32 or more makes the whole symbol file unparseable.
#[test]
fn cfi_init_size_of_nine_hex_digits_rejects_the_whole_file() {
    let sym = "MODULE Linux x86_64 000000000000000000000000000000000 m\n\
               STACK CFI INIT 1000 100000000 .cfa: $rsp 8 + .ra: .cfa 8 - ^\n";
    assert!(breakpad_symbols::SymbolFile::from_bytes(sym.as_bytes()).is_ok());
}
