//! Exploratory differential test: reference interpreter for the documented STACK CFI language
//! versus `SymbolFile::walk_frame`.

use breakpad_symbols::{FrameWalker, SimpleModule, SymbolFile};
use std::collections::{BTreeMap, HashMap};

#[derive(Clone, Debug, PartialEq, Eq)]
struct Out {
    cfa: u64,
    ra: u64,
    // Some(Some(v)) = set, Some(None) = cleared, absent = untouched
    regs: BTreeMap<String, Option<u64>>,
}

struct W {
    instruction: u64,
    callee: HashMap<&'static str, u64>,
    mem: HashMap<u64, u64>,
    known: Vec<&'static str>,
    out_cfa: Option<u64>,
    out_ra: Option<u64>,
    out: BTreeMap<String, Option<u64>>,
}

impl FrameWalker for W {
    fn get_instruction(&self) -> u64 {
        self.instruction
    }
    fn has_grand_callee(&self) -> bool {
        false
    }
    fn get_grand_callee_parameter_size(&self) -> u32 {
        0
    }
    fn get_register_at_address(&self, address: u64) -> Option<u64> {
        self.mem.get(&address).copied()
    }
    fn get_callee_register(&self, name: &str) -> Option<u64> {
        self.callee.get(name).copied()
    }
    fn set_caller_register(&mut self, name: &str, val: u64) -> Option<()> {
        if !self.known.contains(&name) {
            return None;
        }
        self.out.insert(name.to_string(), Some(val));
        Some(())
    }
    fn clear_caller_register(&mut self, name: &str) {
        if self.known.contains(&name) {
            self.out.insert(name.to_string(), None);
        }
    }
    fn set_cfa(&mut self, val: u64) -> Option<()> {
        self.out_cfa = Some(val);
        Some(())
    }
    fn set_ra(&mut self, val: u64) -> Option<()> {
        self.out_ra = Some(val);
        Some(())
    }
}

fn parse_int(tok: &str) -> Option<u64> {
    let (neg, digits) = if let Some(d) = tok.strip_prefix('-') {
        (true, d)
    } else if let Some(d) = tok.strip_prefix('+') {
        (false, d)
    } else {
        (false, tok)
    };
    if digits.is_empty() || !digits.bytes().all(|b| b.is_ascii_digit()) {
        return None;
    }
    let mut v: u128 = 0;
    for b in digits.bytes() {
        v = v * 10 + (b - b'0') as u128;
        if v > (1u128 << 64) {
            return None;
        }
    }
    if neg {
        if v > (1u128 << 63) {
            return None;
        }
        Some((v as u64).wrapping_neg())
    } else {
        if v >= (1u128 << 63) {
            return None;
        }
        Some(v as u64)
    }
}

fn ref_eval(
    expr: &[&str],
    callee: &HashMap<&'static str, u64>,
    mem: &HashMap<u64, u64>,
    cfa: Option<u64>,
) -> Option<u64> {
    let mut st: Vec<u64> = vec![];
    for &t in expr {
        match t {
            "+" | "-" | "*" | "/" | "%" | "@" => {
                let r = st.pop()?;
                let l = st.pop()?;
                st.push(match t {
                    "+" => l.wrapping_add(r),
                    "-" => l.wrapping_sub(r),
                    "*" => l.wrapping_mul(r),
                    "/" => {
                        if r == 0 {
                            return None;
                        }
                        l / r
                    }
                    "%" => {
                        if r == 0 {
                            return None;
                        }
                        l % r
                    }
                    "@" => {
                        if r.count_ones() != 1 {
                            return None;
                        }
                        l - (l % r)
                    }
                    _ => unreachable!(),
                });
            }
            "^" => {
                let p = st.pop()?;
                st.push(*mem.get(&p)?);
            }
            ".cfa" => st.push(cfa?),
            ".undef" => return None,
            _ => {
                if let Some(r) = t.strip_prefix('$') {
                    st.push(*callee.get(r)?);
                } else if let Some(v) = parse_int(t) {
                    st.push(v);
                } else {
                    st.push(*callee.get(t)?);
                }
            }
        }
    }
    if st.len() == 1 {
        st.pop()
    } else {
        None
    }
}

/// lines: (address, rules) with the INIT first; returns None if the unwind as a whole fails.
fn ref_walk(
    lines: &[(u64, String)],
    addr: u64,
    callee: &HashMap<&'static str, u64>,
    mem: &HashMap<u64, u64>,
    known: &[&'static str],
) -> Option<Out> {
    let init = &lines[0];
    let mut deltas: Vec<&(u64, String)> = lines[1..].iter().filter(|l| l.0 <= addr).collect();
    deltas.sort_by_key(|l| l.0);
    let mut rules: Vec<(String, Vec<&str>)> = vec![];
    let mut all = vec![init];
    all.extend(deltas);
    for l in all {
        let mut cur: Option<(String, Vec<&str>)> = None;
        for t in l.1.split_ascii_whitespace() {
            if let Some(name) = t.strip_suffix(':') {
                if let Some(c) = cur.take() {
                    if c.1.is_empty() {
                        return None;
                    }
                    rules.push(c);
                }
                let name = if name == ".cfa" || name == ".ra" {
                    name
                } else {
                    name.strip_prefix('$').unwrap_or(name)
                };
                cur = Some((name.to_string(), vec![]));
            } else {
                cur.as_mut()?.1.push(t);
            }
        }
        let c = cur?;
        if c.1.is_empty() {
            return None;
        }
        rules.push(c);
    }
    // later overrides
    let mut map: BTreeMap<String, Vec<&str>> = BTreeMap::new();
    for (n, e) in rules {
        map.insert(n, e);
    }
    let cfa_e = map.remove(".cfa")?;
    let ra_e = map.remove(".ra")?;
    let cfa = ref_eval(&cfa_e, callee, mem, None)?;
    let ra = ref_eval(&ra_e, callee, mem, Some(cfa))?;
    let mut regs = BTreeMap::new();
    for (n, e) in map {
        if !known.contains(&n.as_str()) {
            continue;
        }
        regs.insert(n, ref_eval(&e, callee, mem, Some(cfa)));
    }
    Some(Out { cfa, ra, regs })
}

fn real_walk(
    lines: &[(u64, String)],
    size: u64,
    addr: u64,
    callee: &HashMap<&'static str, u64>,
    mem: &HashMap<u64, u64>,
    known: &[&'static str],
) -> Option<Out> {
    let mut s = String::from("MODULE Linux x86_64 000000000000000000000000000000000 m\n");
    s += &format!("STACK CFI INIT {:x} {:x} {}\n", lines[0].0, size, lines[0].1);
    for l in &lines[1..] {
        s += &format!("STACK CFI {:x} {}\n", l.0, l.1);
    }
    let sym = SymbolFile::from_bytes(s.as_bytes()).expect("parse");
    let mut w = W {
        instruction: addr,
        callee: callee.clone(),
        mem: mem.clone(),
        known: known.to_vec(),
        out_cfa: None,
        out_ra: None,
        out: BTreeMap::new(),
    };
    let m = SimpleModule::default();
    sym.walk_frame(&m, &mut w)?;
    Some(Out {
        cfa: w.out_cfa.unwrap(),
        ra: w.out_ra.unwrap(),
        regs: w.out,
    })
}

fn setup() -> (HashMap<&'static str, u64>, HashMap<u64, u64>, Vec<&'static str>) {
    let mut callee = HashMap::new();
    callee.insert("rsp", 0x1000u64);
    callee.insert("rbp", 0xffff_ffff_ffff_fff8u64);
    callee.insert("rax", 7u64);
    callee.insert("x11", 0x8000_0000_0000_0000u64);
    let mut mem = HashMap::new();
    mem.insert(0x1000u64, 0x1008u64);
    mem.insert(0x1008u64, 0xdead_beefu64);
    mem.insert(7u64, 3u64);
    mem.insert(0u64, 0x1000u64);
    mem.insert(u64::MAX, 5u64);
    let known = vec!["rsp", "rbp", "rax", "rbx", "x11", "rip"];
    (callee, mem, known)
}

const ALPHA: &[&str] = &[
    "+",
    "-",
    "*",
    "/",
    "%",
    "@",
    "^",
    ".cfa",
    ".ra",
    ".undef",
    "0",
    "1",
    "8",
    "-1",
    "3",
    "9223372036854775807",
    "9223372036854775808",
    "-9223372036854775808",
    "-9223372036854775809",
    "$rsp",
    "rbp",
    "$rax",
    "x11",
    "$nope",
    "junk",
    "$",
    "+5",
    "0x10",
];

#[test]
fn exhaustive_short_programs() {
    let (callee, mem, known) = setup();
    let n = ALPHA.len();
    let mut count = 0u64;
    let mut bad = vec![];
    for len in 1..=3usize {
        let total = n.pow(len as u32);
        for idx in 0..total {
            let mut k = idx;
            let mut toks = vec![];
            for _ in 0..len {
                toks.push(ALPHA[k % n]);
                k /= n;
            }
            let prog = toks.join(" ");
            for pos in 0..3 {
                let rules = match pos {
                    0 => format!(".cfa: $rsp 8 + .ra: .cfa 8 - ^ $rbx: {prog}"),
                    1 => format!(".cfa: {prog} .ra: 1 $rbx: .cfa"),
                    _ => format!(".cfa: $rsp 8 + .ra: {prog} $rbx: .cfa"),
                };
                let lines = vec![(0x100u64, rules)];
                let a = ref_walk(&lines, 0x100, &callee, &mem, &known);
                let b = real_walk(&lines, 0x10, 0x100, &callee, &mem, &known);
                count += 1;
                if a != b && bad.len() < 30 {
                    bad.push(format!("{:?}\n  ref  {:?}\n  real {:?}", lines, a, b));
                }
            }
        }
    }
    eprintln!("{count} programs");
    assert!(bad.is_empty(), "{}", bad.join("\n"));
}

struct Rng(u64);
impl Rng {
    fn next(&mut self) -> u64 {
        self.0 ^= self.0 << 13;
        self.0 ^= self.0 >> 7;
        self.0 ^= self.0 << 17;
        self.0
    }
    fn below(&mut self, n: usize) -> usize {
        (self.next() % n as u64) as usize
    }
}

#[test]
fn random_tables() {
    let (callee, mem, known) = setup();
    let labels = [
        ".cfa:", ".ra:", "$rbx:", "rbx:", "$rax:", "x11:", "$nope:", "$rsp:", "rip:", ":", "$:",
    ];
    let mut rng = Rng(0x1234_5678_9abc_def1);
    let mut bad = vec![];
    let mut ok = 0;
    for _ in 0..300_000 {
        let nlines = 1 + rng.below(4);
        let mut lines = vec![];
        for li in 0..nlines {
            let addr = if li == 0 {
                0x100
            } else {
                0xfe + rng.below(0x14) as u64
            };
            let mut toks: Vec<&str> = vec![];
            if li == 0 || rng.below(4) != 0 {
                // well-formed-ish prefix
                if li == 0 || rng.below(2) == 0 {
                    toks.extend([".cfa:", "$rsp", ["8", "16", "x11"][rng.below(3)], "+"]);
                }
                if li == 0 || rng.below(2) == 0 {
                    toks.extend([".ra:", ".cfa", "8", "-", "^"]);
                }
            }
            let extra = rng.below(8);
            for _ in 0..extra {
                if rng.below(3) == 0 {
                    toks.push(labels[rng.below(labels.len())]);
                } else {
                    toks.push(ALPHA[rng.below(ALPHA.len())]);
                }
            }
            if toks.is_empty() {
                toks.push("$rbx:");
                toks.push("1");
            }
            lines.push((addr, toks.join(" ")));
        }
        for addr in [0x100u64, 0x101, 0x105, 0x10f] {
            let a = ref_walk(&lines, addr, &callee, &mem, &known);
            let b = real_walk(&lines, 0x10, addr, &callee, &mem, &known);
            if a.is_some() {
                ok += 1;
            }
            if a != b && bad.len() < 30 {
                bad.push(format!("addr {addr:x} {:?}\n  ref  {:?}\n  real {:?}", lines, a, b));
            }
        }
    }
    eprintln!("{ok} successful unwinds");
    assert!(bad.is_empty(), "{}", bad.join("\n"));
}
