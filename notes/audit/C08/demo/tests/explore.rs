// Exploratory model-based checks that back the audit (all of these PASS on the unmodified code).
// They compare every lookup table against a simple reference model, randomly over u64 (ranges
// near 0, 2^32 and 2^64, sizes 0/1/max, duplicates, nesting) and exhaustively over a tiny domain.
// The confirmed findings live in tests/findings.rs; the one class of entry that is known to fail
// (modules / unloaded modules ending exactly at 2^64) is taken out of the generators here, see
// `not_ending_at_2_64`.
use minidump::*;
use minidump_common::traits::Module as _;
#[allow(unused_imports)]
use minidump_synth::{
    DumpString, Memory, MemoryInfo, Module as SynthModule, SynthMinidump,
    UnloadedModule as SynthUnloadedModule,
};
use test_assembler::{Endian, Section};

struct Rng(u64);
impl Rng {
    fn next(&mut self) -> u64 {
        let mut x = self.0;
        x ^= x << 13;
        x ^= x >> 7;
        x ^= x << 17;
        self.0 = x;
        x
    }
    fn below(&mut self, n: u64) -> u64 {
        self.next() % n
    }
}

/// inclusive range of an entry, None if empty or not representable
fn model_range(base: u64, size: u64) -> Option<(u64, u64)> {
    if size == 0 {
        return None;
    }
    base.checked_add(size - 1).map(|e| (base, e))
}

fn intersects(a: (u64, u64), b: (u64, u64)) -> bool {
    a.0 <= b.1 && b.0 <= a.1
}

/// Generic checker. `lookup(addr)` returns the (base,size) of the entry found.
fn check(
    what: &str,
    entries: &[(u64, u64)],
    lookup: &dyn Fn(u64) -> Option<(u64, u64)>,
    by_addr: &[(u64, u64)],
) -> Result<(), String> {
    let ranges: Vec<Option<(u64, u64)>> =
        entries.iter().map(|&(b, s)| model_range(b, s)).collect();
    let mut probes = vec![0u64, 1, u64::MAX, u64::MAX - 1];
    for &(b, s) in entries {
        for d in [0u64, 1] {
            probes.push(b.wrapping_add(d));
            probes.push(b.wrapping_sub(d));
            probes.push(b.wrapping_add(s).wrapping_add(d));
            probes.push(b.wrapping_add(s).wrapping_sub(d));
            probes.push(b.wrapping_add(s / 2));
        }
    }
    for &p in &probes {
        let got = lookup(p);
        if let Some((b, s)) = got {
            match model_range(b, s) {
                Some(r) if r.0 <= p && p <= r.1 => {}
                _ => {
                    return Err(format!(
                        "{what}: UNSOUND lookup({p:#x}) returned entry base={b:#x} size={s:#x}; entries={entries:x?}"
                    ))
                }
            }
        }
        for (i, r) in ranges.iter().enumerate() {
            let Some(r) = r else { continue };
            if !(r.0 <= p && p <= r.1) {
                continue;
            }
            let isolated = ranges
                .iter()
                .enumerate()
                .all(|(j, o)| j == i || o.map_or(true, |o| !intersects(*r, o)));
            // entries whose range wraps could be said to intersect; treat wrapping ones as
            // intersecting everything they might touch: skip if any other entry wraps.
            let any_wrapping = entries
                .iter()
                .enumerate()
                .any(|(j, &(b, s))| j != i && s != 0 && model_range(b, s).is_none());
            if isolated && !any_wrapping && got != Some(entries[i]) {
                return Err(format!(
                    "{what}: INCOMPLETE lookup({p:#x}) = {got:x?} but isolated entry {:x?} covers it; entries={entries:x?}",
                    entries[i]
                ));
            }
        }
    }
    // by_addr sorted and non overlapping
    let mut last_end: Option<u64> = None;
    for &(b, s) in by_addr {
        let Some(r) = model_range(b, s) else {
            return Err(format!(
                "{what}: by_addr yields entry without a range {b:#x}+{s:#x}; entries={entries:x?}"
            ));
        };
        if let Some(le) = last_end {
            if r.0 <= le {
                return Err(format!(
                    "{what}: by_addr not sorted/disjoint: {by_addr:x?}; entries={entries:x?}"
                ));
            }
        }
        last_end = Some(r.1);
    }
    Ok(())
}

fn gen_entries(rng: &mut Rng, max_size: u64, anchors: &[u64]) -> Vec<(u64, u64)> {
    let n = rng.below(6) as usize;
    let mut v = Vec::new();
    for _ in 0..n {
        let a = anchors[rng.below(anchors.len() as u64) as usize];
        let base = a.wrapping_add(rng.below(8)).wrapping_sub(rng.below(8));
        let size = match rng.below(8) {
            0 => 0,
            1 => 1,
            2 => { let w = u64::MAX.wrapping_sub(base).wrapping_add(1); if w <= max_size { w } else { 1 } } // end at 2^64 if fits
            3 => max_size,
            _ => rng.below(12.min(max_size) + 1),
        };
        v.push((base, size.min(max_size)));
        if rng.below(5) == 0 {
            let last = *v.last().unwrap();
            v.push(last); // duplicate
        }
    }
    v
}

/// Modules and unloaded modules whose last byte is 0xffff_ffff_ffff_ffff are a confirmed finding
/// (tests/findings.rs); shrink them by one byte so the remaining behaviour can be explored.
fn not_ending_at_2_64(mut v: Vec<(u64, u64)>) -> Vec<(u64, u64)> {
    for e in v.iter_mut() {
        if e.1 != 0 && e.0.checked_add(e.1 - 1) == Some(u64::MAX) {
            e.1 -= 1;
        }
    }
    v
}

const ANCHORS: &[u64] = &[0, 4, 10, 0xffff_ffff, 0x1_0000_0000, u64::MAX - 5, u64::MAX];

#[test]
fn explore_module_list_direct() {
    let mut rng = Rng(0x1234_5678_9abc_def1);
    let mut failures = std::collections::BTreeSet::new();
    for _ in 0..200_000 {
        let entries = not_ending_at_2_64(gen_entries(&mut rng, u32::MAX as u64, ANCHORS));
        let mods: Vec<_> = entries
            .iter()
            .enumerate()
            .map(|(i, &(b, s))| MinidumpModule::new(b, s as u32, &format!("m{i}")))
            .collect();
        let list = MinidumpModuleList::from_modules(mods);
        let by: Vec<_> = list.by_addr().map(|m| (m.base_address(), m.size())).collect();
        if let Err(e) = check(
            "modules",
            &entries,
            &|a| list.module_at_address(a).map(|m| (m.base_address(), m.size())),
            &by,
        ) {
            failures.insert(e.split(';').next().unwrap().to_string());
            if failures.len() > 8 {
                break;
            }
        }
    }
    for f in &failures {
        println!("{f}");
    }
    assert!(failures.is_empty());
}

#[test]
fn explore_unloaded_module_list_direct() {
    let mut rng = Rng(0x1234_5678_9abc_def1);
    let mut failures = std::collections::BTreeSet::new();
    for _ in 0..100_000 {
        let entries = not_ending_at_2_64(gen_entries(&mut rng, u32::MAX as u64, ANCHORS));
        let mods: Vec<_> = entries
            .iter()
            .enumerate()
            .map(|(i, &(b, s))| MinidumpUnloadedModule::new(b, s as u32, &format!("m{i}")))
            .collect();
        let list = MinidumpUnloadedModuleList::from_modules(mods);
        let mut probes = vec![0u64, u64::MAX];
        for &(b, s) in &entries {
            probes.extend([b, b.wrapping_sub(1), b.wrapping_add(s), b.wrapping_add(s).wrapping_sub(1)]);
        }
        for p in probes {
            let mut got: Vec<String> = list
                .modules_at_address(p)
                .map(|m| m.code_file().to_string())
                .collect();
            got.sort();
            let mut want: Vec<String> = entries
                .iter()
                .enumerate()
                .filter(|(_, &(b, s))| model_range(b, s).map_or(false, |r| r.0 <= p && p <= r.1))
                .map(|(i, _)| format!("m{i}"))
                .collect();
            want.sort();
            if got != want {
                failures.insert(format!("unloaded: at {p:#x} got {got:?} want {want:?} entries={entries:x?}"));
            }
        }
        // by_addr sorted
        let by: Vec<_> = list.by_addr().map(|m| m.base_address()).collect();
        let mut s = by.clone();
        s.sort();
        if s != by {
            failures.insert(format!("unloaded by_addr unsorted {entries:x?}"));
        }
        if failures.len() > 5 {
            break;
        }
    }
    for f in &failures {
        println!("{f}");
    }
    assert!(failures.is_empty());
}

fn read_dump(d: SynthMinidump) -> Minidump<'static, Vec<u8>> {
    Minidump::read(d.finish().unwrap()).unwrap()
}

#[test]
fn explore_memory_lists_synth() {
    let mut rng = Rng(0xdead_beef_1234_5671);
    let mut failures = std::collections::BTreeSet::new();
    for iter in 0..20_000 {
        let entries = gen_entries(&mut rng, 12, ANCHORS);
        let use64 = iter % 2 == 0;
        let mut d = SynthMinidump::with_endian(Endian::Little);
        for &(b, s) in &entries {
            let sec = Section::with_endian(Endian::Little).append_repeated(0xab, s as usize);
            let m = Memory::with_section(sec, b);
            d = if use64 { d.add_memory64(m) } else { d.add_memory(m) };
        }
        let dump = read_dump(d);
        // 32-bit list silently skips size 0 entries; model does too
        let res = if use64 {
            match dump.get_stream::<MinidumpMemory64List>() {
                Ok(l) => {
                    let by: Vec<_> = l.by_addr().map(|m| (m.base_address, m.size)).collect();
                    check(
                        "memory64",
                        &entries,
                        &|a| l.memory_at_address(a).map(|m| (m.base_address, m.size)),
                        &by,
                    )
                }
                Err(e) => {
                    if entries.is_empty() {
                        Ok(())
                    } else {
                        Err(format!("memory64: build failed {e:?}; entries={entries:x?}"))
                    }
                }
            }
        } else {
            match dump.get_stream::<MinidumpMemoryList>() {
                Ok(l) => {
                    let by: Vec<_> = l.by_addr().map(|m| (m.base_address, m.size)).collect();
                    check(
                        "memory",
                        &entries,
                        &|a| l.memory_at_address(a).map(|m| (m.base_address, m.size)),
                        &by,
                    )
                }
                Err(e) => {
                    if entries.is_empty() {
                        Ok(())
                    } else {
                        Err(format!("memory: build failed {e:?}; entries={entries:x?}"))
                    }
                }
            }
        };
        if let Err(e) = res {
            failures.insert(e);
            if failures.len() > 8 {
                break;
            }
        }
    }
    for f in &failures {
        println!("{f}");
    }
    assert!(failures.is_empty());
}

#[test]
fn explore_memory_info_synth() {
    let mut rng = Rng(0xdead_beef_1234_5671);
    let mut failures = std::collections::BTreeSet::new();
    for _ in 0..20_000 {
        let entries = gen_entries(&mut rng, u64::MAX, ANCHORS);
        let mut d = SynthMinidump::with_endian(Endian::Little);
        for &(b, s) in &entries {
            d = d.add_memory_info(MemoryInfo::new(Endian::Little, b, b, 0, s, 0x1000, 4, 0));
        }
        let dump = read_dump(d);
        let res = match dump.get_stream::<MinidumpMemoryInfoList>() {
            Ok(l) => {
                let by: Vec<_> = l
                    .by_addr()
                    .map(|m| (m.raw.base_address, m.raw.region_size))
                    .collect();
                check(
                    "meminfo",
                    &entries,
                    &|a| {
                        l.memory_info_at_address(a)
                            .map(|m| (m.raw.base_address, m.raw.region_size))
                    },
                    &by,
                )
            }
            Err(e) => {
                if entries.is_empty() {
                    Ok(())
                } else {
                    Err(format!("meminfo: build failed {e:?}; entries={entries:x?}"))
                }
            }
        };
        if let Err(e) = res {
            failures.insert(e);
            if failures.len() > 8 {
                break;
            }
        }
    }
    for f in &failures {
        println!("{f}");
    }
    assert!(failures.is_empty());
}

#[test]
fn explore_modules_synth() {
    let mut rng = Rng(0xfeed_beef_1234_5671);
    let mut failures = std::collections::BTreeSet::new();
    for _ in 0..5_000 {
        let entries = not_ending_at_2_64(gen_entries(&mut rng, u32::MAX as u64, ANCHORS));
        let mut d = SynthMinidump::with_endian(Endian::Little);
        let name = DumpString::new("mod", Endian::Little);
        for &(b, s) in &entries {
            d = d.add_module(SynthModule::new(Endian::Little, b, s as u32, &name, 0, 0, None));
            d = d.add_unloaded_module(SynthUnloadedModule::new(Endian::Little, b, s as u32, &name, 0, 0));
        }
        d = d.add(name);
        let dump = read_dump(d);
        let res = match dump.get_stream::<MinidumpModuleList>() {
            Ok(l) => {
                let by: Vec<_> = l.by_addr().map(|m| (m.base_address(), m.size())).collect();
                check(
                    "modules(read)",
                    &entries,
                    &|a| l.module_at_address(a).map(|m| (m.base_address(), m.size())),
                    &by,
                )
            }
            Err(e) => {
                if entries.is_empty() {
                    Ok(())
                } else {
                    Err(format!("modules(read): build failed {e:?}; entries={entries:x?}"))
                }
            }
        };
        if let Err(e) = res {
            failures.insert(e.split(';').next().unwrap().to_string());
        }
        if !entries.is_empty() {
            if let Err(e) = dump.get_stream::<MinidumpUnloadedModuleList>() {
                failures.insert(format!("unloaded(read): build failed {e:?}; entries={entries:x?}"));
            }
        }
        if failures.len() > 8 {
            break;
        }
    }
    for f in &failures {
        println!("{f}");
    }
    assert!(failures.is_empty());
}

// ---------------------------------------------------------------- symbol files
use breakpad_symbols::SymbolFile;

fn check_rangemap<V>(
    what: &str,
    entries: &[(u64, u64)],
    map: &range_map::RangeMap<u64, V>,
    own: &dyn Fn(&V) -> (u64, u64),
    text: &str,
) -> Result<(), String>
where
    V: Clone + std::fmt::Debug + Eq,
{
    // the stored range must be the entry's own range
    for (r, v) in map.ranges_values() {
        let (b, s) = own(v);
        if model_range(b, s) != Some((r.start, r.end)) {
            return Err(format!(
                "{what}: stored range {r:?} differs from the entry's own range {b:#x}+{s:#x}\n{text}"
            ));
        }
    }
    let by: Vec<_> = map.ranges_values().map(|(_, v)| own(v)).collect();
    check(what, entries, &|a| map.get(a).map(|v| own(v)), &by).map_err(|e| format!("{e}\n{text}"))
}

#[test]
fn explore_sym_func_cfi_lines() {
    let mut rng = Rng(0xabcd_ef01_2345_6789);
    let mut failures = std::collections::BTreeSet::new();
    for _ in 0..60_000 {
        let funcs = gen_entries(&mut rng, u32::MAX as u64, ANCHORS);
        let cfis = gen_entries(&mut rng, u32::MAX as u64, ANCHORS);
        let lines = gen_entries(&mut rng, u32::MAX as u64, ANCHORS);
        let mut text = String::from("MODULE Linux x86 ffff0000 bar\nFILE 0 a.c\n");
        for (i, &(b, s)) in funcs.iter().enumerate() {
            text += &format!("FUNC {b:x} {s:x} 0 f{i}\n");
        }
        // one function holding all lines
        text += "FUNC 0 ffffffff 0 holder\n";
        for (i, &(b, s)) in lines.iter().enumerate() {
            text += &format!("{b:x} {s:x} {} 0\n", i + 1);
        }
        for (i, &(b, s)) in cfis.iter().enumerate() {
            text += &format!("STACK CFI INIT {b:x} {s:x} .cfa: $esp {i} +\n");
        }
        let sym = match SymbolFile::from_bytes(text.as_bytes()) {
            Ok(s) => s,
            Err(e) => {
                failures.insert(format!("parse failed {e:?}\n{text}"));
                continue;
            }
        };
        let mut all_funcs = funcs.clone();
        all_funcs.push((0, 0xffff_ffff));
        if let Err(e) = check_rangemap("FUNC", &all_funcs, &sym.functions, &|f| (f.address, f.size as u64), &text) {
            failures.insert(e);
        }
        if let Err(e) = check_rangemap("CFI", &cfis, &sym.cfi_stack_info, &|f| (f.init.address, f.size as u64), &text) {
            failures.insert(e);
        }
        // holder may have been dropped if it overlaps; find it among all
        if let Some((_, holder)) = sym.functions.ranges_values().find(|(_, f)| f.name == "holder") {
            if let Err(e) = check_rangemap("LINE", &lines, &holder.lines, &|l| (l.address, l.size as u64), &text) {
                failures.insert(e);
            }
        }
        if failures.len() > 6 {
            break;
        }
    }
    for f in &failures {
        println!("{f}\n-----");
    }
    assert!(failures.is_empty());
}

#[test]
fn explore_sym_win() {
    let mut rng = Rng(0xabcd_ef01_2345_6789);
    let mut failures = std::collections::BTreeSet::new();
    for iter in 0..100_000 {
        let wins = gen_entries(&mut rng, u32::MAX as u64, ANCHORS);
        let ty = if iter % 2 == 0 { 4 } else { 0 };
        let mut text = String::from("MODULE Windows x86 ffff0000 bar\n");
        for (i, &(b, s)) in wins.iter().enumerate() {
            if ty == 4 {
                text += &format!("STACK WIN 4 {b:x} {s:x} 0 0 {i:x} 0 0 0 1 $eip .raSearch ^ =\n");
            } else {
                text += &format!("STACK WIN 0 {b:x} {s:x} 0 0 {i:x} 0 0 0 0 1\n");
            }
        }
        let sym = match SymbolFile::from_bytes(text.as_bytes()) {
            Ok(s) => s,
            Err(e) => {
                failures.insert(format!("parse failed {e:?}\n{text}"));
                continue;
            }
        };
        let map = if ty == 4 { &sym.win_stack_framedata_info } else { &sym.win_stack_fpo_info };
        // soundness only w.r.t. the stored (possibly truncated) entries; completeness w.r.t.
        // input entries that are isolated (those are never truncated)
        for (r, v) in map.ranges_values() {
            if model_range(v.address, v.size as u64) != Some((r.start, r.end)) {
                failures.insert(format!("WIN stored range {r:?} vs own {:#x}+{:#x}\n{text}", v.address, v.size));
            }
            // a stored entry must lie inside the input entry it came from
            let (b, s) = wins[v.parameter_size as usize];
            let orig = model_range(b, s);
            if orig.map_or(true, |o| !(o.0 <= r.start && r.end <= o.1)) {
                failures.insert(format!("WIN stored range {r:?} outside its record {b:#x}+{s:#x}\n{text}"));
            }
        }
        let by: Vec<_> = map.ranges_values().map(|(_, v)| (v.address, v.size as u64)).collect();
        // completeness: compare by parameter_size id
        let ranges: Vec<_> = wins.iter().map(|&(b, s)| model_range(b, s)).collect();
        for (i, r) in ranges.iter().enumerate() {
            let Some(r) = r else { continue };
            let isolated = ranges.iter().enumerate().all(|(j, o)| j == i || o.map_or(true, |o| !intersects(*r, o)));
            if !isolated { continue; }
            for p in [r.0, r.1, r.0 + (r.1 - r.0) / 2] {
                match map.get(p) {
                    Some(v) if v.parameter_size as usize == i && v.address == r.0 && v.size as u64 == wins[i].1 => {}
                    other => {
                        failures.insert(format!("WIN INCOMPLETE at {p:#x}: {other:?}\n{text}"));
                    }
                }
            }
        }
        let mut last_end = None;
        for &(b, s) in &by {
            let r = model_range(b, s).unwrap();
            if let Some(le) = last_end { if r.0 <= le { failures.insert(format!("WIN by_addr overlap {by:x?}\n{text}")); } }
            last_end = Some(r.1);
        }
        if failures.len() > 6 {
            break;
        }
    }
    for f in &failures {
        println!("{f}\n-----");
    }
    assert!(failures.is_empty());
}

#[test]
fn explore_inlinees() {
    let mut rng = Rng(0x1111_ef01_2345_6789);
    let mut failures = std::collections::BTreeSet::new();
    for _ in 0..100_000 {
        let inl = gen_entries(&mut rng, u32::MAX as u64, ANCHORS);
        let depths: Vec<u32> = inl.iter().map(|_| rng.below(2) as u32).collect();
        let mut text = String::from("MODULE Linux x86 ffff0000 bar\nFILE 0 a.c\nINLINE_ORIGIN 0 x\n");
        text += "FUNC 0 ffffffff 0 holder\n";
        for (i, &(b, s)) in inl.iter().enumerate() {
            text += &format!("INLINE {} {} 0 0 {b:x} {s:x}\n", depths[i], i + 1);
        }
        let sym = SymbolFile::from_bytes(text.as_bytes()).unwrap();
        let f = sym.functions.get(0).unwrap();
        let ranges: Vec<_> = inl.iter().map(|&(b, s)| model_range(b, s)).collect();
        let mut probes = vec![0u64, u64::MAX];
        for &(b, s) in &inl {
            probes.extend([b, b.wrapping_sub(1), b.wrapping_add(1), b.wrapping_add(s), b.wrapping_add(s).wrapping_sub(1), b.wrapping_add(s / 2)]);
        }
        for &p in &probes {
            for d in 0..2u32 {
                let got = f.get_inlinee_at_depth(d, p);
                if let Some((_cf, call_line, address, _o)) = got {
                    let i = (call_line - 1) as usize;
                    let ok = depths[i] == d && inl[i].0 == address && ranges[i].map_or(false, |r| r.0 <= p && p <= r.1);
                    if !ok {
                        failures.insert(format!("INLINE UNSOUND at {p:#x} depth {d}: {got:?}\n{text}"));
                    }
                }
                for (i, r) in ranges.iter().enumerate() {
                    let Some(r) = r else { continue };
                    if depths[i] != d || !(r.0 <= p && p <= r.1) { continue; }
                    let isolated = ranges.iter().enumerate().all(|(j, o)| j == i || depths[j] != d || {
                        // wrapping ones count as intersecting if non-empty
                        match o { Some(o) => !intersects(*r, *o), None => inl[j].1 == 0 }
                    });
                    if isolated && got.map(|g| g.1) != Some(i as u32 + 1) {
                        failures.insert(format!("INLINE INCOMPLETE at {p:#x} depth {d}: {got:?} want #{}\n{text}", i + 1));
                    }
                }
            }
        }
        if failures.len() > 4 { break; }
    }
    for f in &failures {
        println!("{f}\n-----");
    }
    assert!(failures.is_empty());
}

#[test]
fn explore_linux_maps_inclusive_model() {
    // model: the code's own reading (end inclusive)
    let mut rng = Rng(0x2222_ef01_2345_6789);
    let mut failures = std::collections::BTreeSet::new();
    for _ in 0..20_000 {
        let n = rng.below(6);
        let mut ents = vec![];
        let mut text = String::new();
        for _ in 0..n {
            let a = ANCHORS[rng.below(ANCHORS.len() as u64) as usize].wrapping_add(rng.below(8)).wrapping_sub(rng.below(8));
            let b = if rng.below(3) == 0 { a } else { ANCHORS[rng.below(ANCHORS.len() as u64) as usize].wrapping_add(rng.below(8)) };
            ents.push((a, b));
            text += &format!("{a:x}-{b:x} r-xp 00000000 00:00 0 \n");
        }
        if ents.is_empty() { continue; }
        let d = SynthMinidump::with_endian(Endian::Little).set_linux_maps(text.as_bytes());
        let dump = read_dump(d);
        let maps = match dump.get_stream::<MinidumpLinuxMaps>() {
            Ok(m) => m,
            Err(e) => { failures.insert(format!("maps build failed {e:?}\n{text}")); continue; }
        };
        let ranges: Vec<Option<(u64,u64)>> = ents.iter().map(|&(a,b)| if a <= b { Some((a,b)) } else { None }).collect();
        let mut probes = vec![0u64, u64::MAX];
        for &(a,b) in &ents { probes.extend([a, b, a.wrapping_sub(1), b.wrapping_add(1), b.wrapping_sub(1)]); }
        for p in probes {
            let got = maps.memory_info_at_address(p).map(|m| m.map.address);
            if let Some((a,b)) = got { if !(a <= p && p <= b) { failures.insert(format!("maps UNSOUND {p:#x} -> {a:#x}-{b:#x}\n{text}")); } }
            for (i, r) in ranges.iter().enumerate() {
                let Some(r) = r else { continue };
                if !(r.0 <= p && p <= r.1) { continue; }
                let isolated = ranges.iter().enumerate().all(|(j,o)| j == i || o.map_or(true, |o| !intersects(*r, o)));
                if isolated && got != Some(ents[i]) { failures.insert(format!("maps INCOMPLETE {p:#x} -> {got:x?}\n{text}")); }
            }
        }
        let mut last: Option<u64> = None;
        for m in maps.by_addr() {
            if let Some(l) = last { if m.map.address.0 <= l { failures.insert(format!("maps by_addr overlap\n{text}")); } }
            last = Some(m.map.address.1);
        }
        if failures.len() > 4 { break; }
    }
    for f in &failures {
        println!("{f}\n-----");
    }
    assert!(failures.is_empty());
}

#[test]
fn explore_trait_exhaustive() {
    use minidump_common::traits::IntoRangeMapSafe;
    use range_map::Range;
    for top in [false, true] {
        let off = if top { u64::MAX - 3 } else { 0 };
        let mut items: Vec<(Option<Range<u64>>, u8)> = vec![(None, 0)];
        for s in 0..4u64 {
            for e in s..4u64 {
                for v in 0..2u8 {
                    items.push((Some(Range::new(off + s, off + e)), v));
                }
            }
        }
        let n = items.len();
        for code in 0..(n * n * n * n) {
            let idx = [code % n, code / n % n, code / n / n % n, code / n / n / n % n];
            let input: Vec<_> = idx.iter().map(|&i| items[i]).collect();
            let map = input.clone().into_rangemap_safe();
            // sorted & disjoint
            let rv: Vec<_> = map.ranges_values().cloned().collect();
            for w in rv.windows(2) {
                assert!(w[0].0.end < w[1].0.start, "{input:?} -> {rv:?}");
            }
            for a in 0..4u64 {
                let a = off + a;
                let got = map.get(a).copied();
                if let Some(v) = got {
                    assert!(
                        input.iter().any(|(r, w)| *w == v && r.map_or(false, |r| r.contains(a))),
                        "unsound {input:?} at {a:#x} -> {v}"
                    );
                }
                for (i, (r, v)) in input.iter().enumerate() {
                    let Some(r) = r else { continue };
                    if !r.contains(a) { continue; }
                    let isolated = input.iter().enumerate().all(|(j, (o, _))| j == i || o.map_or(true, |o| !o.intersects(r)));
                    if isolated {
                        assert_eq!(got, Some(*v), "incomplete {input:?} at {a:#x}");
                    }
                }
            }
        }
    }
}
