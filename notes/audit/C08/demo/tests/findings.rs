//! Confirmed violations of property C08 in the unmodified code. Each test asserts what the
//! property demands and therefore FAILS on the unmodified tree.

use minidump::*;
use minidump_common::traits::Module as _;
use minidump_synth::{
    DumpString, Module as SynthModule, SynthMinidump, UnloadedModule as SynthUnloadedModule,
};
use test_assembler::Endian;

const TOP_BASE: u64 = 0xffff_ffff_ffff_f000;
const TOP_SIZE: u32 = 0x1000; // TOP_BASE + TOP_SIZE == 2^64, last byte is u64::MAX

fn read_dump(d: SynthMinidump) -> Minidump<'static, Vec<u8>> {
    Minidump::read(d.finish().unwrap()).unwrap()
}

/// A module whose last byte is the last byte of the address space (base + size == 2^64) is the
/// only entry of the list, intersects nothing, and yet no address inside it finds it.
#[test]
fn module_ending_at_last_byte_of_address_space_is_never_found() {
    let mut problems = Vec::new();

    // (a) the list built from modules through the public constructor
    let list = MinidumpModuleList::from_modules(vec![
        MinidumpModule::new(0x1000, 0x1000, "low"),
        MinidumpModule::new(TOP_BASE, TOP_SIZE, "top"),
    ]);
    for addr in [TOP_BASE, TOP_BASE + 0x800, u64::MAX] {
        match list.module_at_address(addr) {
            Some(m) if m.base_address() == TOP_BASE => {}
            other => problems.push(format!(
                "from_modules: module_at_address({addr:#x}) = {:?}",
                other.map(|m| m.code_file().to_string())
            )),
        }
    }
    let by_addr: Vec<u64> = list.by_addr().map(|m| m.base_address()).collect();
    if by_addr != [0x1000, TOP_BASE] {
        problems.push(format!("from_modules: by_addr = {by_addr:x?}"));
    }

    // (b) the same module read from a minidump
    let name = DumpString::new("top", Endian::Little);
    let dump = SynthMinidump::with_endian(Endian::Little)
        .add_module(SynthModule::new(
            Endian::Little,
            TOP_BASE,
            TOP_SIZE,
            &name,
            0,
            0,
            None,
        ))
        .add(name);
    let dump = read_dump(dump);
    let list = dump.get_stream::<MinidumpModuleList>().unwrap();
    for addr in [TOP_BASE, TOP_BASE + 0x800, u64::MAX] {
        match list.module_at_address(addr) {
            Some(m) if m.base_address() == TOP_BASE => {}
            other => problems.push(format!(
                "read: module_at_address({addr:#x}) = {:?} (modules in list: {})",
                other.map(|m| m.code_file().to_string()),
                list.iter().count()
            )),
        }
    }

    assert!(problems.is_empty(), "{problems:#?}");
}

/// The unloaded-module lookup has to return exactly all entries covering the address; an
/// unloaded module whose last byte is u64::MAX is never returned.
#[test]
fn unloaded_module_ending_at_last_byte_of_address_space_is_never_found() {
    let mut problems = Vec::new();

    // (a) through the public constructor
    let list = MinidumpUnloadedModuleList::from_modules(vec![
        MinidumpUnloadedModule::new(TOP_BASE, TOP_SIZE, "top"),
        MinidumpUnloadedModule::new(TOP_BASE + 0x10, 0x10, "inner"),
    ]);
    for addr in [TOP_BASE, TOP_BASE + 0x18, u64::MAX] {
        let mut got: Vec<String> = list
            .modules_at_address(addr)
            .map(|m| m.code_file().to_string())
            .collect();
        got.sort();
        let want: Vec<&str> = if addr == TOP_BASE + 0x18 {
            vec!["inner", "top"]
        } else {
            vec!["top"]
        };
        if got != want {
            problems.push(format!(
                "from_modules: modules_at_address({addr:#x}) = {got:?}, want {want:?}"
            ));
        }
    }

    // (b) read from a minidump
    let name = DumpString::new("top", Endian::Little);
    let dump = SynthMinidump::with_endian(Endian::Little)
        .add_unloaded_module(SynthUnloadedModule::new(
            Endian::Little,
            TOP_BASE,
            TOP_SIZE,
            &name,
            0,
            0,
        ))
        .add(name);
    let dump = read_dump(dump);
    let list = dump.get_stream::<MinidumpUnloadedModuleList>().unwrap();
    for addr in [TOP_BASE, u64::MAX] {
        let got: Vec<String> = list
            .modules_at_address(addr)
            .map(|m| m.code_file().to_string())
            .collect();
        if got != ["top"] {
            problems.push(format!(
                "read: modules_at_address({addr:#x}) = {got:?}, want [\"top\"] (modules in list: {})",
                list.iter().count()
            ));
        }
    }

    assert!(problems.is_empty(), "{problems:#?}");
}

/// /proc/<pid>/maps lines are `start-end` with an EXCLUSIVE end, and neighbouring mappings share
/// that address (`1000-2000`, `2000-3000`). The table reads the end as inclusive, so
///  * the address `end` finds the mapping that stops just before it, and
///  * every mapping that starts where its predecessor ends "overlaps" it and is thrown away:
///    no address inside it finds anything.
#[test]
fn linux_maps_adjacent_mappings_lose_every_second_entry() {
    let maps = b"1000-2000 r-xp 00000000 00:00 0 /lib/a.so\n\
                 2000-3000 r--p 00001000 00:00 0 /lib/a.so\n\
                 3000-4000 rw-p 00002000 00:00 0 /lib/a.so\n\
                 4000-5000 ---p 00000000 00:00 0 \n";
    let dump = read_dump(SynthMinidump::with_endian(Endian::Little).set_linux_maps(maps));
    let list = dump.get_stream::<MinidumpLinuxMaps>().unwrap();
    assert_eq!(list.iter().count(), 4);

    let mut problems = Vec::new();
    // the four mappings are pairwise disjoint: [1000,2000) [2000,3000) [3000,4000) [4000,5000)
    for (start, end) in [(0x1000u64, 0x2000u64), (0x2000, 0x3000), (0x3000, 0x4000), (0x4000, 0x5000)] {
        for addr in [start, start + 0x800, end - 1] {
            match list.memory_info_at_address(addr) {
                Some(m) if m.map.address == (start, end) => {}
                other => problems.push(format!(
                    "memory_info_at_address({addr:#x}) = {:x?}, want {start:#x}-{end:#x}",
                    other.map(|m| m.map.address)
                )),
            }
        }
    }
    // one past the last mapping is not mapped
    if let Some(m) = list.memory_info_at_address(0x5000) {
        problems.push(format!(
            "memory_info_at_address(0x5000) = {:x?}, want None",
            m.map.address
        ));
    }
    let by_addr: Vec<(u64, u64)> = list.by_addr().map(|m| m.map.address).collect();
    if by_addr.len() != 4 {
        problems.push(format!("by_addr yields only {by_addr:x?}"));
    }
    assert!(problems.is_empty(), "{problems:#?}");
}

/// Borderline for C08 (the offending line is an smaps-style attribute, not a range entry), but it
/// makes building the Linux maps table PANIC instead of returning a table or an error: the
/// `Key: value kB` lines that procfs-core accepts after a mapping are multiplied by 1024 without
/// a check. Only builds with overflow checks (dev/test profile) panic; release builds wrap.
#[test]
fn linux_maps_attribute_line_overflow_panics_while_building_the_table() {
    let maps = b"1000-2000 r-xp 00000000 00:00 0 /lib/a.so\n\
                 Rss: 18446744073709551615 kB\n";
    let dump = read_dump(SynthMinidump::with_endian(Endian::Little).set_linux_maps(maps));
    let built = std::panic::catch_unwind(std::panic::AssertUnwindSafe(|| {
        dump.get_stream::<MinidumpLinuxMaps>()
            .map(|l| l.memory_info_at_address(0x1800).map(|m| m.map.address))
    }));
    match built {
        // either outcome would be acceptable: the mapping is found, or the stream is rejected
        Ok(Ok(found)) => assert_eq!(found, Some((0x1000, 0x2000))),
        Ok(Err(_)) => {}
        Err(_) => panic!("building the MinidumpLinuxMaps table panicked"),
    }
}
