// scratch crate for the C08 audit; the tests live under tests/
