// scratch crate for the C19 audit; see tests/
