mod common;
use common::*;

struct Lcg(u64);
impl Lcg {
    fn next(&mut self) -> u64 {
        self.0 = self.0.wrapping_mul(6364136223846793005).wrapping_add(1442695040888963407);
        let x = self.0;
        (x ^ (x >> 33)).wrapping_mul(0xff51afd7ed558ccd) ^ (x >> 29)
    }
    fn pick<T: Copy>(&mut self, v: &[T]) -> T {
        v[(self.next() % v.len() as u64) as usize]
    }
}

fn perms(prot: u32) -> (bool, bool, bool) {
    match prot {
        0x02 => (true, false, false),
        0x04 => (true, true, false),
        0x08 => (false, true, false), // WRITECOPY: code says writable only
        0x10 => (false, false, true),
        0x20 => (true, false, true),
        0x40 => (true, true, true),
        0x80 => (false, true, true),
        _ => (false, false, false),
    }
}

/// Windows access violations (kind known) on well-formed, non-overlapping MemoryInfo lists.
#[tokio::test]
async fn sweep_windows_av() {
    let mut rng = Lcg(0xC19);
    let bases: &[u64] = &[
        0, 0x1000, 0x10000, 0x80000, 0x7ff0_0000_0000, 0x0000_7fff_ffff_0000,
        0xffff_8000_0000_0000, 0xffff_ffff_ffff_0000, 0x4000_0000, 0x1_0000_0000,
    ];
    let prots: &[u32] = &[0x01, 0x02, 0x04, 0x08, 0x10, 0x20, 0x40, 0x80];
    let mut problems = vec![];
    for iter in 0..3000 {
        let n = (rng.next() % 5) as usize;
        let mut regions = vec![];
        for _ in 0..n {
            let base = rng.pick(bases);
            if regions.iter().any(|r: &Region| r.base == base) { continue; }
            let size = if base == 0xffff_ffff_ffff_0000 { 0x10000 } else { rng.pick(&[0x1000u64, 0x10000, 1]) };
            regions.push(Region { base, size, state: MEM_COMMIT, protection: rng.pick(prots) });
        }
        let kind = rng.pick(&[0u64, 1, 8]);
        // examined address: a region address with 0..2 bits flipped, or special values
        let mut addr = match rng.next() % 4 {
            0 => rng.pick(bases) + (rng.next() % 0x1000),
            1 => rng.pick(&[0u64, 1, 8, 0x1000, u64::MAX, u64::MAX - 1, 1 << 47, 1 << 63]),
            _ => rng.pick(bases),
        };
        for _ in 0..(rng.next() % 3) { addr ^= 1 << (rng.next() % 64); }
        // avoid the GPF pattern (no context so no adjustment anyway)
        let flips = bit_flips(&Spec {
            os: OS_WINDOWS,
            exception_code: EXCEPTION_ACCESS_VIOLATION,
            exception_flags: 0,
            exception_address: 0x1234,
            params: &[kind, addr],
            regions: &regions,
            ..Default::default()
        }).await;
        let find = |a: u64| regions.iter().find(|r| a >= r.base && a - r.base < r.size);
        let allowed = |r: &Region| { let (rd, wr, ex) = perms(r.protection); match kind { 0 => rd, 1 => wr, _ => ex } };
        if let Some(r) = find(addr) {
            if allowed(r) && !flips.is_empty() {
                problems.push(format!("iter {iter}: addr {addr:#x} accessible but flips {}", describe(&flips)));
            }
        }
        for f in &flips {
            let d = f.address.0 ^ addr;
            if d.count_ones() != 1 || d.trailing_zeros() >= 48 {
                problems.push(format!("iter {iter}: addr {addr:#x} cand {:#x} not single bit in 0..48", f.address.0));
            }
            if f.address.0 != 0 && !find(f.address.0).map(|r| allowed(r)).unwrap_or(false) {
                problems.push(format!("iter {iter}: addr {addr:#x} kind {kind} cand {:#x} not in permitted region {:?}", f.address.0,
                    regions.iter().map(|r| (r.base, r.size, r.protection)).collect::<Vec<_>>()));
            }
            let c = f.confidence.unwrap_or(-1.0);
            if !(0.0..=1.0).contains(&c) { problems.push(format!("iter {iter}: confidence {c}")); }
            if f.source_register.is_some() { problems.push(format!("iter {iter}: register without context")); }
        }
    }
    for p in problems.iter().take(30) { println!("{p}"); }
    assert!(problems.is_empty(), "{} problems", problems.len());
}
