//! Shared helpers: build a synthetic 64-bit minidump and run the processor on it.
#![allow(dead_code)]

use minidump::Minidump;
use minidump_processor::{PossibleBitFlip, ProcessState};
use minidump_synth::*;
use minidump_unwind::{simple_symbol_supplier, Symbolizer};
use test_assembler::*;

pub const ARCH_AMD64: u16 = 9;
pub const ARCH_ARM64: u16 = 12;
pub const ARCH_PPC64: u16 = 0x8002;
pub const ARCH_MIPS64: u16 = 0x8003;

pub const OS_WINDOWS: u32 = 2; // VER_PLATFORM_WIN32_NT
pub const OS_LINUX: u32 = 0x8201;
pub const OS_MACOS: u32 = 0x8101;

pub const EXCEPTION_ACCESS_VIOLATION: u32 = 0xC000_0005;
pub const EXCEPTION_IN_PAGE_ERROR: u32 = 0xC000_0006;
pub const SIGSEGV: u32 = 11;
pub const SEGV_MAPERR: u32 = 1;

pub const PAGE_NOACCESS: u32 = 0x01;
pub const PAGE_READONLY: u32 = 0x02;
pub const PAGE_READWRITE: u32 = 0x04;
pub const PAGE_EXECUTE_READ: u32 = 0x20;

pub const MEM_COMMIT: u32 = 0x1000;
pub const MEM_RESERVE: u32 = 0x2000;
pub const MEM_FREE: u32 = 0x10000;

/// rax, rcx, rdx, rbx, rsp, rbp, rsi, rdi, r8..r15 (the order of CONTEXT_AMD64).
#[derive(Clone, Copy, Default)]
pub struct Regs {
    pub rax: u64,
    pub rcx: u64,
    pub rdx: u64,
    pub rbx: u64,
    pub rsp: u64,
    pub rbp: u64,
    pub rsi: u64,
    pub rdi: u64,
    pub r8_15: [u64; 8],
    pub rip: u64,
}

pub fn amd64_context_full(r: &Regs) -> Section {
    let mut s = Section::with_endian(Endian::Little)
        .append_repeated(0, 8 * 6) // p[1-6]_home
        .D32(0x10001f) // CONTEXT_AMD64_ALL
        .D32(0) // mx_csr
        .append_repeated(0, 2 * 6) // segment registers
        .D32(0) // eflags
        .append_repeated(0, 8 * 6) // debug registers
        .D64(r.rax)
        .D64(r.rcx)
        .D64(r.rdx)
        .D64(r.rbx)
        .D64(r.rsp)
        .D64(r.rbp)
        .D64(r.rsi)
        .D64(r.rdi);
    for v in r.r8_15 {
        s = s.D64(v);
    }
    s.D64(r.rip)
        .append_repeated(0, 512) // float_save
        .append_repeated(0, 16 * 26) // vector registers
        .append_repeated(0, 8 * 6) // trailing
}

#[derive(Clone, Copy)]
pub struct Region {
    pub base: u64,
    pub size: u64,
    pub state: u32,
    pub protection: u32,
}

pub struct Spec<'a> {
    pub arch: u16,
    pub os: u32,
    pub exception_code: u32,
    pub exception_flags: u32,
    pub exception_address: u64,
    pub params: &'a [u64],
    /// Registers of the exception context; `None` = the exception has no context.
    pub regs: Option<Regs>,
    /// Bytes of the crashing instruction, stored at `regs.rip`.
    pub code: &'a [u8],
    pub regions: &'a [Region],
    pub linux_maps: Option<&'a str>,
}

impl Default for Spec<'_> {
    fn default() -> Self {
        Spec {
            arch: ARCH_AMD64,
            os: OS_LINUX,
            exception_code: SIGSEGV,
            exception_flags: SEGV_MAPERR,
            exception_address: 0,
            params: &[],
            regs: None,
            code: &[],
            regions: &[],
            linux_maps: None,
        }
    }
}

pub async fn process(spec: &Spec<'_>) -> ProcessState {
    let regs = spec.regs.unwrap_or_default();
    let context = amd64_context_full(&regs);
    let stack = Memory::with_section(Section::with_endian(Endian::Little), 0);
    let thread = Thread::new(Endian::Little, 1, &stack, &context);
    let system_info = SystemInfo::new(Endian::Little)
        .set_processor_architecture(spec.arch)
        .set_platform_id(spec.os);

    let context_label = context.file_offset();
    let context_size = context.file_size();
    let mut dump = SynthMinidump::with_endian(Endian::Little).add(context);

    let mut ex = Exception::new(Endian::Little);
    ex.thread_id = 1;
    ex.exception_record.exception_code = spec.exception_code;
    ex.exception_record.exception_flags = spec.exception_flags;
    ex.exception_record.exception_address = spec.exception_address;
    ex.exception_record.number_parameters = spec.params.len() as u32;
    for (i, p) in spec.params.iter().enumerate() {
        ex.exception_record.exception_information[i] = *p;
    }
    if spec.regs.is_some() {
        ex.thread_context = (
            context_size.value().unwrap() as u32,
            context_label.value().unwrap() as u32,
        );
    }

    dump = dump
        .add_thread(thread)
        .add_exception(ex)
        .add_system_info(system_info)
        .add_memory(stack);
    if !spec.code.is_empty() {
        let code = Memory::with_section(
            Section::with_endian(Endian::Little).append_bytes(spec.code),
            regs.rip,
        );
        dump = dump.add_memory(code);
    }
    for r in spec.regions {
        dump = dump.add_memory_info(MemoryInfo::new(
            Endian::Little,
            r.base,
            r.base,
            r.protection,
            r.size,
            r.state,
            r.protection,
            0,
        ));
    }
    if let Some(maps) = spec.linux_maps {
        dump = dump.set_linux_maps(maps.as_bytes());
    }

    let dump = Minidump::read(dump.finish().unwrap()).unwrap();
    minidump_processor::process_minidump(&dump, &Symbolizer::new(simple_symbol_supplier(vec![])))
        .await
        .unwrap()
}

pub async fn bit_flips(spec: &Spec<'_>) -> Vec<PossibleBitFlip> {
    process(spec)
        .await
        .exception_info
        .expect("missing exception info")
        .possible_bit_flips
}

pub fn describe(flips: &[PossibleBitFlip]) -> String {
    flips
        .iter()
        .map(|b| {
            format!(
                "{}{:#x} (confidence {:?})",
                b.source_register.map(|r| format!("{r}=")).unwrap_or_default(),
                b.address.0,
                b.confidence
            )
        })
        .collect::<Vec<_>>()
        .join(", ")
}
