//! Property C19: every reported bit-flip candidate is a single-bit neighbour of the examined
//! value that is null or lies in a mapped region permitting the crashing kind of access, and
//! none is reported when the examined address is itself accessible.
//!
//! Each test asserts what the property demands and FAILS on the unmodified code.
mod common;
use common::*;

/// /proc/<pid>/maps prints `start-end` with an EXCLUSIVE end; the byte at `end` is not part of
/// the mapping. `MinidumpLinuxMapInfo::memory_range` treats `end` as inclusive, so the address
/// `end` itself is accepted as "mapped" and reported as a bit-flip candidate.
#[tokio::test]
async fn linux_maps_exclusive_end_reported_as_mapped() {
    let (start, end) = (0x10000u64, 0x20000u64);
    let crash_address = 0x20400; // 0x20000 ^ (1 << 10); nothing around it is mapped
    let flips = bit_flips(&Spec {
        os: OS_LINUX,
        exception_code: SIGSEGV,
        exception_flags: SEGV_MAPERR,
        exception_address: crash_address,
        linux_maps: Some("00010000-00020000 rw-p 00000000 00:00 0 \n"),
        ..Default::default()
    })
    .await;
    for f in &flips {
        let a = f.address.0;
        assert!(
            a == 0 || (start..end).contains(&a),
            "candidate {a:#x} for crash address {crash_address:#x} is neither null nor inside the \
             only mapping [{start:#x}, {end:#x}); reported: {}",
            describe(&flips)
        );
    }
}

/// Because of the inclusive-end reading, two contiguous mappings (`a-b` followed by `b-c`, the
/// normal case in /proc/<pid>/maps) "overlap" in one byte and `into_rangemap_safe` silently drops
/// the second one. An address inside the second mapping is then considered unmapped and bit
/// flips are reported for it although the examined address is itself accessible.
#[tokio::test]
async fn linux_adjacent_mapping_dropped_accessible_address_gets_bit_flips() {
    let crash_address = 0x38000; // inside the second mapping, rw-p
    let flips = bit_flips(&Spec {
        os: OS_LINUX,
        exception_code: SIGSEGV,
        exception_flags: SEGV_MAPERR,
        exception_address: crash_address,
        linux_maps: Some(
            "00010000-00020000 rw-p 00000000 00:00 0 \n\
             00020000-00040000 rw-p 00000000 00:00 0 \n",
        ),
        ..Default::default()
    })
    .await;
    assert!(
        flips.is_empty(),
        "crash address {crash_address:#x} lies inside the mapping 0x20000-0x40000 rw-p, so no bit \
         flip may be reported; reported: {}",
        describe(&flips)
    );
}

/// With an undetermined access kind (every non-Windows crash) `is_possibly_allowed_for` accepts
/// ANY region, including regions that permit no access at all: Linux `---p` guard mappings,
/// PAGE_NOACCESS regions and even MEM_FREE entries (which describe unmapped address space).
#[tokio::test]
async fn undetermined_access_accepts_regions_without_any_permission() {
    let region_base = 0x7f00_0001_0000u64;
    let crash_address = region_base ^ (1 << 20); // unmapped
    let mut violations = vec![];

    let linux = bit_flips(&Spec {
        exception_address: crash_address,
        linux_maps: Some("7f0000010000-7f0000011000 ---p 00000000 00:00 0 \n"),
        ..Default::default()
    })
    .await;
    if linux.iter().any(|f| f.address.0 != 0) {
        violations.push(format!("Linux maps ---p region: {}", describe(&linux)));
    }

    for (what, state, protection) in [
        ("MEM_COMMIT/PAGE_NOACCESS", MEM_COMMIT, PAGE_NOACCESS),
        ("MEM_RESERVE/protection 0", MEM_RESERVE, 0),
        ("MEM_FREE/PAGE_NOACCESS", MEM_FREE, PAGE_NOACCESS),
    ] {
        let flips = bit_flips(&Spec {
            exception_address: crash_address,
            regions: &[Region {
                base: region_base,
                size: 0x1000,
                state,
                protection,
            }],
            ..Default::default()
        })
        .await;
        if flips.iter().any(|f| f.address.0 != 0) {
            violations.push(format!("MemoryInfo {what} region: {}", describe(&flips)));
        }
    }

    assert!(
        violations.is_empty(),
        "candidates were reported inside regions that permit no kind of access (SIGSEGV at \
         {crash_address:#x}):\n{}",
        violations.join("\n")
    );
}

/// EXCEPTION_IN_PAGE_ERROR carries the same read/write/execute flag as an access violation
/// (`CrashReason::WindowsInPageError(WRITE, ..)`), but `MemoryOperation::from_crash_reason`
/// ignores it, so a candidate inside a read-only region is reported for a faulting WRITE.
#[tokio::test]
async fn in_page_error_access_kind_ignored() {
    let crash_address = 0x4008_0000u64; // 0x80000 ^ (1 << 30); unmapped
    let state = process(&Spec {
        os: OS_WINDOWS,
        exception_code: EXCEPTION_IN_PAGE_ERROR,
        exception_flags: 0,
        exception_address: 0x1234,
        params: &[1 /* write */, crash_address, 0xC000_007F],
        regions: &[Region {
            base: 0x80000,
            size: 0x1000,
            state: MEM_COMMIT,
            protection: PAGE_READONLY,
        }],
        ..Default::default()
    })
    .await;
    let info = state.exception_info.unwrap();
    assert_eq!(info.address.0, crash_address);
    assert!(
        info.reason.to_string().starts_with("EXCEPTION_IN_PAGE_ERROR_WRITE"),
        "unexpected reason {}",
        info.reason
    );
    let in_readonly: Vec<_> = info
        .possible_bit_flips
        .iter()
        .filter(|f| (0x80000..0x81000).contains(&f.address.0))
        .collect();
    assert!(
        in_readonly.is_empty(),
        "{}: the crashing access was a WRITE, but candidates inside the PAGE_READONLY region \
         0x80000..0x81000 were reported: {}",
        info.reason,
        describe(&info.possible_bit_flips)
    );
}

/// Windows reports a general-protection fault on a non-canonical address as
/// EXCEPTION_ACCESS_VIOLATION_READ at 0xffffffffffffffff whatever the instruction did. The
/// processor recovers the real (non-canonical) address from the instruction, but still filters
/// candidates by that placeholder READ: a store (`mov [rax], rbx`) or a jump (`jmp rax`) through
/// a non-canonical pointer gets a candidate in a read-only, non-executable data region.
#[tokio::test]
async fn non_canonical_fault_uses_placeholder_read_instead_of_actual_access() {
    let mut violations = vec![];
    for (name, code, needed) in [
        ("mov [rax], rbx", &[0x48u8, 0x89, 0x18][..], "write"),
        ("jmp rax", &[0xff, 0xe0][..], "execute"),
    ] {
        let state = process(&Spec {
            os: OS_WINDOWS,
            exception_code: EXCEPTION_ACCESS_VIOLATION,
            exception_flags: 0,
            exception_address: 0x2000,
            params: &[0 /* "read" */, u64::MAX],
            regs: Some(Regs {
                rax: 0x0001_0000_0008_0000, // 0x80000 with bit 48 set: non-canonical
                rip: 0x2000,
                rsp: 0x9000,
                ..Default::default()
            }),
            code,
            regions: &[Region {
                base: 0x80000,
                size: 0x1000,
                state: MEM_COMMIT,
                protection: PAGE_READONLY, // neither writable nor executable
            }],
            ..Default::default()
        })
        .await;
        let info = state.exception_info.unwrap();
        // Make sure the analysis really saw what we think it saw.
        assert_eq!(
            info.adjusted_address,
            Some(minidump_processor::AdjustedAddress::NonCanonical(
                0x0001_0000_0008_0000u64.into()
            )),
            "{name}: {:?}",
            info.instruction_str
        );
        if info
            .possible_bit_flips
            .iter()
            .any(|f| (0x80000..0x81000).contains(&f.address.0))
        {
            violations.push(format!(
                "`{}` needs {needed} access, region 0x80000..0x81000 is PAGE_READONLY, reported: {}",
                info.instruction_str.as_deref().unwrap_or(name),
                describe(&info.possible_bit_flips)
            ));
        }
    }
    assert!(
        violations.is_empty(),
        "candidates in a region that does not permit the crashing kind of access:\n{}",
        violations.join("\n")
    );
}
