//! Confirming tests for the C07 audit (STACK WIN records evaluate exactly as documented).
//! Everything goes through the public API: `minidump_unwind::walk_stack` with a string
//! symbol supplier (the real x86 unwinder + the real `FrameWalker` of minidump-unwind).

use minidump::format::CONTEXT_X86;
use minidump::system_info::{Cpu, Os};
use minidump::{
    CpuContext, MinidumpContext, MinidumpContextValidity, MinidumpMemory, MinidumpModule,
    MinidumpModuleList, MinidumpRawContext, UnifiedMemory,
};
use minidump_unwind::{
    string_symbol_supplier, walk_stack, CallStack, FrameTrust, Symbolizer, SystemInfo,
};
use std::collections::HashMap;
use test_assembler::*;

struct TestFixture {
    pub raw: CONTEXT_X86,
    pub modules: MinidumpModuleList,
    pub symbols: HashMap<String, String>,
}

impl TestFixture {
    pub fn new() -> TestFixture {
        TestFixture {
            raw: CONTEXT_X86::default(),
            modules: MinidumpModuleList::from_modules(vec![
                MinidumpModule::new(0x40000000, 0x10000, "module1"),
                MinidumpModule::new(0x50000000, 0x10000, "module2"),
            ]),
            symbols: HashMap::new(),
        }
    }

    pub async fn walk_stack(&self, stack: Section) -> CallStack {
        let context = MinidumpContext {
            raw: MinidumpRawContext::X86(self.raw.clone()),
            valid: MinidumpContextValidity::All,
        };
        let base = stack.start().value().unwrap();
        let size = stack.size();
        let stack = stack.get_contents().unwrap();
        let stack_memory = MinidumpMemory {
            desc: Default::default(),
            base_address: base,
            size,
            bytes: &stack,
            endian: scroll::LE,
        };
        let system_info = SystemInfo {
            os: Os::Windows,
            os_version: None,
            os_build: None,
            cpu: Cpu::X86,
            cpu_info: None,
            cpu_microcode_version: None,
            cpu_count: 1,
        };
        let symbolizer = Symbolizer::new(string_symbol_supplier(self.symbols.clone()));
        let mut stack = CallStack::with_context(context);

        walk_stack(
            0,
            (),
            &mut stack,
            Some(UnifiedMemory::Memory(&stack_memory)),
            &self.modules,
            &system_info,
            &symbolizer,
        )
        .await;

        stack
    }

    pub fn add_symbols(&mut self, name: &str, symbols: String) {
        self.symbols.insert(name.to_string(), symbols);
    }
}

fn valid_set(ctx: &MinidumpContext) -> Vec<&'static str> {
    match &ctx.valid {
        MinidumpContextValidity::All => vec!["<all>"],
        MinidumpContextValidity::Some(which) => {
            let mut v: Vec<&'static str> = which.iter().copied().collect();
            v.sort();
            v
        }
    }
}

/// A simple stack: callee frame has one local word, then the return address.
/// Returns (stack, frame1_esp).
fn simple_stack() -> (Section, u32) {
    let frame1_esp = Label::new();
    let mut stack = Section::new();
    stack.start().set_const(0x80000000);
    stack = stack
        .D32(0xa08ea45f) // local
        .D32(0x40001350) // return address
        .mark(&frame1_esp)
        .append_repeated(0, 64);
    let esp1 = frame1_esp.value().unwrap() as u32;
    (stack, esp1)
}

fn set_callee_regs(f: &mut TestFixture) {
    f.raw.set_register("eip", 0x4000aa85);
    f.raw.set_register("esp", 0x80000000);
    f.raw.set_register("ebp", 0x80000020);
    f.raw.set_register("ebx", 0x11111111);
    f.raw.set_register("esi", 0x22222222);
    f.raw.set_register("edi", 0x33333333);
}

/// Finding 1a: a frame-data program that only assigns $eip and $esp.
/// Documented: "If those variables are undefined, then their values in the caller are unknown.
/// Do not implicitly forward registers that weren't explicitly set."
#[tokio::test]
async fn framedata_unset_registers_are_forwarded() {
    let mut f = TestFixture::new();
    let symbols = [
        "STACK WIN 4 aa85 176 0 0 0 0 4 0 1",
        " $T0 .raSearch = $eip $T0 ^ = $esp $T0 4 + =\n",
    ];
    f.add_symbols("module1", symbols.concat());
    let (stack, esp1) = simple_stack();
    set_callee_regs(&mut f);

    let s = f.walk_stack(stack).await;
    assert!(s.frames.len() >= 2);
    let f1 = &s.frames[1];
    assert_eq!(f1.trust, FrameTrust::CallFrameInfo);
    if let MinidumpRawContext::X86(ctx) = &f1.context.raw {
        assert_eq!(ctx.eip, 0x40001350);
        assert_eq!(ctx.esp, esp1);
    } else {
        unreachable!();
    }
    // Only the registers the program set may be known in the caller.
    assert_eq!(valid_set(&f1.context), vec!["eip", "esp"]);
}

/// Finding 1b: `.undef` assigned to a register deletes it, so it is unknown in the caller.
#[tokio::test]
async fn framedata_undef_register_is_still_reported() {
    let mut f = TestFixture::new();
    let symbols = [
        "STACK WIN 4 aa85 176 0 0 0 0 4 0 1",
        " $T0 .raSearch = $eip $T0 ^ = $esp $T0 4 + = $ebp .undef = $ebx .undef =\n",
    ];
    f.add_symbols("module1", symbols.concat());
    let (stack, _esp1) = simple_stack();
    set_callee_regs(&mut f);

    let s = f.walk_stack(stack).await;
    assert!(s.frames.len() >= 2);
    let f1 = &s.frames[1];
    assert_eq!(f1.trust, FrameTrust::CallFrameInfo);
    let valid = valid_set(&f1.context);
    assert!(!valid.contains(&"ebp"), "ebp was .undef'd: {valid:?}");
    assert!(!valid.contains(&"ebx"), "ebx was .undef'd: {valid:?}");
}

/// Finding 1c: FPO only passes %ebp and %ebx through (and only when the function does not
/// allocate a base pointer); %esi and %edi are never produced by an FPO record.
#[tokio::test]
async fn fpo_forwards_esi_edi_and_ebx() {
    let mut problems = Vec::new();
    // allocates_base_pointer = 0: eip, esp, ebp, ebx only.
    {
        let mut f = TestFixture::new();
        f.add_symbols(
            "module1",
            "STACK WIN 0 aa85 176 0 0 0 0 4 0 0 0\n".to_string(),
        );
        let (stack, esp1) = simple_stack();
        set_callee_regs(&mut f);
        let s = f.walk_stack(stack).await;
        assert!(s.frames.len() >= 2);
        let f1 = &s.frames[1];
        assert_eq!(f1.trust, FrameTrust::CallFrameInfo);
        if let MinidumpRawContext::X86(ctx) = &f1.context.raw {
            assert_eq!(ctx.eip, 0x40001350);
            assert_eq!(ctx.esp, esp1);
            assert_eq!(ctx.ebp, 0x80000020);
            assert_eq!(ctx.ebx, 0x11111111);
        }
        if valid_set(&f1.context) != vec!["ebp", "ebx", "eip", "esp"] {
            problems.push(format!(
                "allocates_base_pointer=0: caller knows {:?}, documented: ebp, ebx, eip, esp",
                valid_set(&f1.context)
            ));
        }
    }
    // allocates_base_pointer = 1: eip, esp, ebp (loaded from the stack) only; no %ebx.
    {
        let mut f = TestFixture::new();
        // saved_register_size = 8 so that the saved ebp is at esp + 0 + 8 - 8 = esp
        f.add_symbols(
            "module1",
            "STACK WIN 0 aa85 176 0 0 0 8 0 0 0 1\n".to_string(),
        );
        let frame1_esp = Label::new();
        let mut stack = Section::new();
        stack.start().set_const(0x80000000);
        stack = stack
            .D32(0x80000030) // saved ebp
            .D32(0xa08ea45f) // other saved reg
            .D32(0x40001350) // return address
            .mark(&frame1_esp)
            .append_repeated(0, 64);
        set_callee_regs(&mut f);
        let s = f.walk_stack(stack).await;
        assert!(s.frames.len() >= 2);
        let f1 = &s.frames[1];
        assert_eq!(f1.trust, FrameTrust::CallFrameInfo);
        if let MinidumpRawContext::X86(ctx) = &f1.context.raw {
            assert_eq!(ctx.eip, 0x40001350);
            assert_eq!(ctx.esp, frame1_esp.value().unwrap() as u32);
            assert_eq!(ctx.ebp, 0x80000030);
        }
        if valid_set(&f1.context) != vec!["ebp", "eip", "esp"] {
            problems.push(format!(
                "allocates_base_pointer=1: caller knows {:?}, documented: ebp, eip, esp",
                valid_set(&f1.context)
            ));
        }
    }
    assert!(problems.is_empty(), "{problems:#?}");
}

/// Finding 2: a program that never defines $eip leaves the caller's eip unknown; the
/// unwinder must not present the callee's own eip as the caller's return address.
#[tokio::test]
async fn framedata_without_eip_yields_frame_with_callee_eip() {
    let mut f = TestFixture::new();
    let symbols = [
        "STACK WIN 4 aa85 176 0 0 0 0 4 0 1",
        " $esp .raSearch 4 + =\n",
    ];
    f.add_symbols("module1", symbols.concat());
    // No module-looking values on the stack and a useless ebp: without the STACK WIN
    // "result" there is no caller frame to be found at all.
    let mut stack = Section::new();
    stack.start().set_const(0x80000000);
    stack = stack.append_repeated(0, 1024);
    set_callee_regs(&mut f);
    f.raw.set_register("ebp", 0x10);

    let s = f.walk_stack(stack).await;
    for (i, fr) in s.frames.iter().enumerate().skip(1) {
        assert!(
            !(fr.trust == FrameTrust::CallFrameInfo && fr.instruction + 1 == 0x4000aa85),
            "frame {i} was produced by 'CFI' with the callee's own eip as return address \
             (valid: {:?}); {} frames in total",
            valid_set(&fr.context),
            s.frames.len()
        );
    }
}

/// Finding 3: integer literals are documented as signed decimal integers limited to i64
/// precision, evaluated in 32-bit wrapping arithmetic; 4294967295 is 0xffffffff.
#[tokio::test]
async fn framedata_literal_above_i32_max_rejected() {
    // Control: the same program with literals that fit an i32 unwinds fine.
    {
        let mut f = TestFixture::new();
        let symbols = [
            "STACK WIN 4 aa85 176 0 0 0 0 4 0 1",
            " $T0 .raSearch = $eip $T0 ^ = $esp $T0 4 + = $ebx 2147483647 = $esi -2147483648 =\n",
        ];
        f.add_symbols("module1", symbols.concat());
        let (stack, _) = simple_stack();
        set_callee_regs(&mut f);
        f.raw.set_register("ebp", 0x10);
        let s = f.walk_stack(stack).await;
        assert_eq!(s.frames.len(), 2, "control failed");
        assert_eq!(s.frames[1].trust, FrameTrust::CallFrameInfo, "control failed");
        if let MinidumpRawContext::X86(ctx) = &s.frames[1].context.raw {
            assert_eq!(ctx.ebx, 0x7fffffff, "control failed");
            assert_eq!(ctx.esi, 0x80000000, "control failed");
        }
    }

    let mut f = TestFixture::new();
    let symbols = [
        "STACK WIN 4 aa85 176 0 0 0 0 4 0 1",
        " $T0 .raSearch = $eip $T0 ^ = $esp $T0 4 + = $ebx 4294967295 = $esi 2147483648 =\n",
    ];
    f.add_symbols("module1", symbols.concat());
    let (stack, esp1) = simple_stack();
    set_callee_regs(&mut f);
    // make the fallbacks useless so that the difference is clearly visible
    f.raw.set_register("ebp", 0x10);

    let s = f.walk_stack(stack).await;
    assert!(s.frames.len() >= 2, "no caller frame at all");
    let f1 = &s.frames[1];
    assert_eq!(f1.trust, FrameTrust::CallFrameInfo);
    if let MinidumpRawContext::X86(ctx) = &f1.context.raw {
        assert_eq!(ctx.eip, 0x40001350);
        assert_eq!(ctx.esp, esp1);
        assert_eq!(ctx.ebx, 0xffffffff);
        assert_eq!(ctx.esi, 0x80000000);
    } else {
        unreachable!();
    }
}

/// Finding 4: the grand-callee parameter size is documented to come from the grand-callee's
/// STACK WIN record (preferred over FUNC/PUBLIC). With only a PUBLIC (or no) symbol covering
/// the grand-callee, the STACK WIN parameter size is ignored.
#[tokio::test]
async fn grand_callee_param_size_ignores_stack_win_without_func() {
    let mut problems = Vec::new();
    for module1_symbols in [
        // PUBLIC with a bogus parameter size + STACK WIN (FPO) saying c
        "PUBLIC 1000 beef module1::wheedle\nSTACK WIN 0 1000 100 0 0 c 0 10 0 0 0\n",
        // no FUNC/PUBLIC at all, only STACK WIN saying c
        "STACK WIN 0 1000 100 0 0 c 0 10 0 0 0\n",
    ] {
        let mut f = TestFixture::new();
        let module2_symbols = [
            "FUNC aa85 176 beef module2::whine\n",
            "STACK WIN 4 aa85 176 0 0 4 10 4 0 1",
            " $T0 .raSearchStart =",
            " $eip $T0 ^ =",
            " $esp $T0 4 + =",
            " $ebp $T0 20 - ^ =",
            " $ebx $T0 8 - ^ =\n",
        ];
        f.add_symbols("module1", module1_symbols.to_string());
        f.add_symbols("module2", module2_symbols.concat());

        let frame1_esp = Label::new();
        let _ = &frame1_esp;
        let frame2_esp = Label::new();
        let frame2_ebp = Label::new();

        let mut stack = Section::new();
        stack.start().set_const(0x80000000);
        stack = stack
            // frame 0, in module1::wheedle. FPO frame: 0x10 bytes of locals.
            .append_repeated(0, 16)
            .D32(0x5000aa95) // return address, in module2::whine
            // frame 1, in module2::whine. FrameData frame.
            .mark(&frame1_esp)
            .D32(0xbaa0cb7a) // argument 3 passed to module1::wheedle
            .D32(0xbdc92f9f) // argument 2
            .D32(0x0b1d8442) // argument 1
            .D32(&frame2_ebp) // saved %ebp
            .D32(0xb1b90a15) // unused
            .D32(0xf18e072d) // unused
            .D32(0x2558c7f3) // saved %ebx
            .D32(0x0365e25e) // unused
            .D32(0x2a179e38) // return address; $T0 points here
            // frame 2, in no module
            .mark(&frame2_esp)
            .append_repeated(0, 12)
            .mark(&frame2_ebp)
            .D32(0)
            .D32(0);

        f.raw.set_register("eip", 0x40001004);
        f.raw.set_register("esp", 0x80000000);
        f.raw.set_register("ebp", 0x6fa902e0);

        let s = f.walk_stack(stack).await;
        assert!(!s.frames.is_empty());
        // The grand-callee's parameter size as recorded for the next unwinding step.
        if s.frames[0].parameter_size != Some(0xc) {
            problems.push(format!(
                "symbols {module1_symbols:?}: grand-callee parameter size {:?}, STACK WIN says Some(12)",
                s.frames[0].parameter_size
            ));
        }
        // ... and its effect on unwinding module2::whine with its frame-data program.
        let caller_of_whine = s.frames.get(2).and_then(|f2| match &f2.context.raw {
            MinidumpRawContext::X86(ctx) if f2.trust == FrameTrust::CallFrameInfo => {
                Some((ctx.eip, ctx.esp, ctx.ebp, ctx.ebx))
            }
            _ => None,
        });
        let expected = Some((
            0x2a179e38,
            frame2_esp.value().unwrap() as u32,
            frame2_ebp.value().unwrap() as u32,
            0x2558c7f3,
        ));
        if caller_of_whine != expected {
            problems.push(format!(
                "symbols {module1_symbols:?}: caller of module2::whine by STACK WIN is {caller_of_whine:x?}, expected {expected:x?}"
            ));
        }
    }
    assert!(problems.is_empty(), "{problems:#?}");
}
