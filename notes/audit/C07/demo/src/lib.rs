// scratch crate for the C07 audit; see tests/
