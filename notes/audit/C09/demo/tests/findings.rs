//! Confirming tests for property C09 (parsing a symbol file is total and bounded).
//! Each test asserts what the property demands and FAILS on the unmodified code.

use breakpad_symbols::SymbolFile;

/// Longer than MAX_BUFFER_CAPACITY (160 KiB), so the streaming driver in
/// `SymbolFile::parse` enters its "panic recovery" and discards the line.
const OVERLONG: usize = 200_000;

/// An over-long FUNC line is discarded by the recovery logic, but the parser is not told
/// that a record header went missing: the line records that follow it are handed to the
/// top-level parser, which rejects the whole file.
#[test]
fn overlong_func_line_followed_by_its_line_records_fails_parse() {
    let mut s = String::new();
    s.push_str("MODULE Linux x86 ffff0000 bar\n");
    s.push_str("FILE 1 a.c\n");
    s.push_str(&format!("FUNC 1000 10 0 {}\n", "a".repeat(OVERLONG)));
    s.push_str("1000 10 7 1\n");
    s.push_str("FUNC 2000 10 0 small\n");
    s.push_str("2000 10 8 1\n");
    s.push_str("PUBLIC 3000 0 pub\n");

    let sym = SymbolFile::from_bytes(s.as_bytes())
        .expect("an over-long line must be dropped as corrupt, not fail the parse");
    assert_eq!(sym.files.get(&1).map(String::as_str), Some("a.c"));
    assert_eq!(sym.functions.get(0x2000).map(|f| f.name.as_str()), Some("small"));
    assert_eq!(sym.publics.len(), 1);
}

/// Same root cause with the other multi-line record kind: an over-long STACK CFI INIT line
/// is discarded, and the `STACK CFI <addr>` delta lines that belong to it then fail the
/// whole parse.
#[test]
fn overlong_stack_cfi_init_line_followed_by_its_rules_fails_parse() {
    let mut s = String::new();
    s.push_str("MODULE Linux x86 ffff0000 bar\n");
    s.push_str("FILE 1 a.c\n");
    s.push_str(&format!(
        "STACK CFI INIT 1000 10 .cfa: $esp 4 + .ra: {}\n",
        "a".repeat(OVERLONG)
    ));
    s.push_str("STACK CFI 1004 .cfa: $esp 8 +\n");
    s.push_str("FUNC 2000 10 0 small\n");
    s.push_str("2000 10 8 1\n");

    let sym = SymbolFile::from_bytes(s.as_bytes())
        .expect("an over-long line must be dropped as corrupt, not fail the parse");
    assert_eq!(sym.functions.get(0x2000).map(|f| f.name.as_str()), Some("small"));
}

mod async_twin {
    use super::*;
    use bytes::Bytes;
    use std::collections::VecDeque;
    use std::pin::Pin;
    use std::task::{Context, Poll};

    struct ChunkBody(VecDeque<Bytes>);
    impl http_body::Body for ChunkBody {
        type Data = Bytes;
        type Error = std::io::Error;
        fn poll_frame(
            mut self: Pin<&mut Self>,
            _cx: &mut Context<'_>,
        ) -> Poll<Option<Result<http_body::Frame<Bytes>, Self::Error>>> {
            Poll::Ready(self.0.pop_front().map(|b| Ok(http_body::Frame::data(b))))
        }
    }

    fn response(chunks: Vec<Vec<u8>>) -> reqwest::Response {
        let body =
            reqwest::Body::wrap(ChunkBody(chunks.into_iter().map(Bytes::from).collect()));
        reqwest::Response::from(http::Response::new(body))
    }

    const FILE: &str = "MODULE Linux x86 ffff0000 bar\nFILE 1 a.c\nFUNC 1000 10 0 first\n1000 10 7 1\nFUNC 2000 10 0 second\n2000 10 8 1\nPUBLIC 3000 0 pub\n";

    /// `parse_async` takes "the chunk was empty" for "the body is exhausted": a zero-length
    /// data frame that arrives when everything received so far has been consumed ends the
    /// parse with `Ok`, and the rest of the byte string is never looked at.
    #[tokio::test]
    async fn parse_async_zero_length_chunk_truncates_table() {
        let whole = SymbolFile::from_bytes(FILE.as_bytes()).unwrap();
        assert_eq!(whole.functions.ranges_values().count(), 2);

        let split = FILE.find("FUNC 2000").unwrap();
        let bytes = FILE.as_bytes();

        // Control: the same split without the empty frame gives the whole table.
        let control = SymbolFile::parse_async(
            response(vec![bytes[..split].to_vec(), bytes[split..].to_vec()]),
            |_| (),
        )
        .await
        .unwrap();
        assert_eq!(control, whole);

        let mut seen = Vec::new();
        let got = SymbolFile::parse_async(
            response(vec![bytes[..split].to_vec(), vec![], bytes[split..].to_vec()]),
            |chunk| seen.extend_from_slice(chunk),
        )
        .await;
        // The byte string is the same, so the answer must be the same table (or at least an
        // error) - not a silently truncated table.
        match got {
            Ok(table) => {
                assert_eq!(seen, bytes, "the callback did not see the whole input");
                assert_eq!(table, whole, "table silently truncated at the empty chunk");
            }
            Err(_) => {}
        }
    }
}
