//! Confirming tests for property C04 (stack walking recovers the true call chain of
//! well-formed stacks). Each test asserts what the property demands and fails on the
//! unmodified tree.

use audit_c04_demo::*;
use minidump::format::{CONTEXT_AMD64, CONTEXT_ARM, CONTEXT_ARM64, CONTEXT_X86};
use minidump::system_info::{Cpu, Os};
use minidump::*;
use minidump_unwind::*;
use std::collections::HashMap;
use test_assembler::*;

fn valid_set(frame: &StackFrame) -> Vec<String> {
    match &frame.context.valid {
        MinidumpContextValidity::All => vec!["<all>".to_string()],
        MinidumpContextValidity::Some(which) => {
            let mut v: Vec<String> = which.iter().map(|s| s.to_string()).collect();
            v.sort();
            v
        }
    }
}

/// iOS ARM (32-bit) uses r7 as the frame pointer (`ArmRegisterNumbers::IosFramePointer`).
/// A frame-pointer chain laid out by the iOS calling convention must be walked.
#[tokio::test]
async fn arm_ios_frame_pointer_chain_in_r7_is_not_walked() {
    let modules = MinidumpModuleList::from_modules(vec![
        MinidumpModule::new(0x40000000, 0x10000, "module1"),
        MinidumpModule::new(0x50000000, 0x10000, "module2"),
    ]);

    let return_address1 = 0x50000100u32;
    let return_address2 = 0x50000900u32;
    let frame0_fp = Label::new();
    let frame1_sp = Label::new();
    let frame1_fp = Label::new();
    let frame2_sp = Label::new();
    let frame2_fp = Label::new();

    let stack = Section::new();
    stack.start().set_const(0x80000000);
    let stack = stack
        // frame 0: push {r7, lr}; mov r7, sp
        .append_repeated(0, 32)
        .mark(&frame0_fp)
        .D32(&frame1_fp) // saved r7
        .D32(return_address1) // saved lr
        .mark(&frame1_sp)
        // frame 1: 64 words of locals
        .append_repeated(0, 64 * 4)
        .mark(&frame1_fp)
        .D32(&frame2_fp)
        .D32(return_address2)
        .mark(&frame2_sp)
        // frame 2 (outermost)
        .append_repeated(0, 32)
        .mark(&frame2_fp)
        .D32(0)
        .D32(0);

    let mut raw = CONTEXT_ARM::default();
    raw.set_register("pc", 0x40005510);
    raw.set_register("lr", return_address1);
    // The iOS frame pointer.
    raw.set_register("r7", frame0_fp.value().unwrap() as u32);
    // r11 is an ordinary callee-saved register on iOS; give it an ordinary value.
    raw.set_register("r11", 0x12345678);
    raw.set_register("sp", 0x80000000);

    let bytes = stack.get_contents().unwrap();
    let s = walk(
        MinidumpRawContext::Arm(raw),
        0x80000000,
        &bytes,
        &modules,
        HashMap::new(),
        Os::Ios,
        Cpu::Arm,
    )
    .await;
    eprintln!("{}", dump(&s));

    assert_eq!(s.frames.len(), 3, "the two callers must be recovered");
    assert_eq!(s.frames[1].trust, FrameTrust::FramePointer);
    assert_eq!(s.frames[1].resume_address, return_address1 as u64);
    assert_eq!(
        s.frames[1].context.get_stack_pointer(),
        frame1_sp.value().unwrap()
    );
    assert_eq!(s.frames[2].trust, FrameTrust::FramePointer);
    assert_eq!(s.frames[2].resume_address, return_address2 as u64);
    assert_eq!(
        s.frames[2].context.get_stack_pointer(),
        frame2_sp.value().unwrap()
    );
}

/// Windows x64: %rbp may point up to 240 bytes (in 16 byte steps) into the frame. The walker
/// probes each step; a probe that lands on ordinary locals must be skipped (`continue`), not
/// abort the whole technique.
#[tokio::test]
async fn amd64_windows_frame_pointer_probe_aborts_on_large_local() {
    let modules = MinidumpModuleList::from_modules(vec![
        MinidumpModule::new(0x00007400c0000000, 0x10000, "module1"),
        MinidumpModule::new(0x00007500b0000000, 0x10000, "module2"),
    ]);
    let stack_start = 0x0000000080000000u64;
    let return_address = 0x00007500b0000110u64;

    let frame0_rbp = Label::new();
    let frame1_sp = Label::new();
    let frame1_rbp = Label::new();

    let stack = Section::new();
    stack.start().set_const(stack_start);
    let stack = stack
        // frame 0
        .append_repeated(0, 16)
        .mark(&frame0_rbp) // rbp points 32 bytes below the saved rbp (slack = 2 steps)
        .D64(0x00000000deadbeef00u64) // local: a heap pointer (>= any stack address)
        .D64(0x0000000000000007) // local
        .D64(0x0000000000000001) // local
        .D64(0x0000000000000002) // local
        .D64(&frame1_rbp) // saved rbp
        .D64(return_address)
        .mark(&frame1_sp)
        // frame 1
        .append_repeated(0, 64)
        .mark(&frame1_rbp)
        .D64(0)
        .D64(0);

    let mut raw = CONTEXT_AMD64::default();
    raw.rip = 0x00007400c0000200;
    raw.rbp = frame0_rbp.value().unwrap();
    raw.rsp = stack_start;

    let bytes = stack.get_contents().unwrap();
    let s = walk(
        MinidumpRawContext::Amd64(raw),
        stack_start,
        &bytes,
        &modules,
        HashMap::new(),
        Os::Windows,
        Cpu::X86_64,
    )
    .await;
    eprintln!("{}", dump(&s));

    assert!(s.frames.len() >= 2);
    let f1 = &s.frames[1];
    assert_eq!(f1.resume_address, return_address);
    assert_eq!(f1.context.get_stack_pointer(), frame1_sp.value().unwrap());
    assert_eq!(
        f1.trust,
        FrameTrust::FramePointer,
        "a slack of 32 bytes is within the documented 240 bytes"
    );
    assert_eq!(
        f1.context.get_register("rbp"),
        Some(frame1_rbp.value().unwrap()),
        "the caller's rbp must be recovered"
    );
}

/// SysV x86-64: the deepest frame is marked by %rbp == 0, so the frame below it has a saved
/// rbp of 0. That frame is part of the call chain and must be found by the frame pointer.
#[tokio::test]
async fn amd64_frame_pointer_drops_outermost_frame_whose_rbp_is_zero() {
    let modules = MinidumpModuleList::from_modules(vec![
        MinidumpModule::new(0x00007400c0000000, 0x10000, "module1"),
        MinidumpModule::new(0x00007500b0000000, 0x10000, "module2"),
    ]);
    let stack_start = 0x0000000080000000u64;
    let return_address1 = 0x00007500b0000110u64;
    let return_address2 = 0x00007500b0000220u64;

    let frame0_rbp = Label::new();
    let frame1_sp = Label::new();
    let frame1_rbp = Label::new();
    let frame2_sp = Label::new();

    let stack = Section::new();
    stack.start().set_const(stack_start);
    let stack = stack
        // frame 0
        .append_repeated(0, 32)
        .mark(&frame0_rbp)
        .D64(&frame1_rbp)
        .D64(return_address1)
        .mark(&frame1_sp)
        // frame 1 (main): 64 words of locals
        .append_repeated(0, 64 * 8)
        .mark(&frame1_rbp)
        .D64(0) // saved rbp of the deepest frame (_start): zero, per the ABI
        .D64(return_address2)
        .mark(&frame2_sp)
        // frame 2 (_start): rbp == 0
        .append_repeated(0, 64);

    let mut raw = CONTEXT_AMD64::default();
    raw.rip = 0x00007400c0000200;
    raw.rbp = frame0_rbp.value().unwrap();
    raw.rsp = stack_start;

    let bytes = stack.get_contents().unwrap();
    let s = walk(
        MinidumpRawContext::Amd64(raw),
        stack_start,
        &bytes,
        &modules,
        HashMap::new(),
        Os::Linux,
        Cpu::X86_64,
    )
    .await;
    eprintln!("{}", dump(&s));

    assert_eq!(s.frames.len(), 3, "context frame, main, _start");
    let f2 = &s.frames[2];
    assert_eq!(f2.trust, FrameTrust::FramePointer);
    assert_eq!(f2.resume_address, return_address2);
    assert_eq!(f2.context.get_stack_pointer(), frame2_sp.value().unwrap());
    assert_eq!(f2.context.get_register("rbp"), Some(0));
}

/// STACK WIN must not implicitly forward registers that its program string did not set.
#[tokio::test]
async fn x86_stack_win_keeps_forwarding_esi_edi() {
    let modules = MinidumpModuleList::from_modules(vec![
        MinidumpModule::new(0x40000000, 0x10000, "module1"),
        MinidumpModule::new(0x50000000, 0x10000, "module2"),
    ]);
    let mut symbols = HashMap::new();
    symbols.insert(
        "module1".to_string(),
        [
            "FUNC aa85 176 0 callee\n",
            // The callee pushes and clobbers esi/edi; the record restores only eip/esp/ebp.
            "STACK WIN 4 aa85 176 0 0 0 c 4 0 1",
            " $T0 .raSearchStart =",
            " $eip $T0 ^ =",
            " $esp $T0 4 + =",
            " $ebp $T0 8 - ^ =\n",
            "FUNC 1300 100 0 caller\n",
        ]
        .concat(),
    );

    let frame1_esp = Label::new();
    let frame1_ebp = Label::new();
    let stack = Section::new();
    stack.start().set_const(0x80000000);
    let stack = stack
        // frame 0: saved regs (12 bytes) + locals (4 bytes)
        .D32(0x11111111) // saved esi (caller's value)
        .D32(0x22222222) // saved edi (caller's value)
        .D32(&frame1_ebp) // saved ebp
        .D32(0xa08ea45f) // local
        .D32(0x40001350) // return address
        .mark(&frame1_esp)
        .append_repeated(0, 12)
        .mark(&frame1_ebp)
        .D32(0)
        .D32(0);

    let mut raw = CONTEXT_X86::default();
    raw.eip = 0x4000aa90;
    raw.esp = 0x80000000;
    raw.ebp = 0xf052c1de;
    raw.esi = 0xdeadbeef; // the callee's own use of esi
    raw.edi = 0xfeedface; // the callee's own use of edi

    let bytes = stack.get_contents().unwrap();
    let s = walk(
        MinidumpRawContext::X86(raw),
        0x80000000,
        &bytes,
        &modules,
        symbols,
        Os::Windows,
        Cpu::X86,
    )
    .await;
    eprintln!("{}", dump(&s));

    assert_eq!(s.frames.len(), 2);
    let f1 = &s.frames[1];
    assert_eq!(f1.trust, FrameTrust::CallFrameInfo);
    assert_eq!(f1.resume_address, 0x40001350);
    assert_eq!(f1.context.get_register("ebp"), Some(frame1_ebp.value().unwrap()));
    // The caller's esi/edi are 0x11111111/0x22222222. The record doesn't say so, hence they
    // are unknown - but they certainly aren't the callee's values.
    assert_eq!(
        f1.context.get_register("esi"),
        None,
        "esi was not recovered, it must not be reported (valid: {:?})",
        valid_set(f1)
    );
    assert_eq!(f1.context.get_register("edi"), None);
}

/// The parameter size of the grand-callee comes from its STACK WIN record in preference to
/// the FUNC/PUBLIC record; a module that only has PUBLIC records (system DLLs) must still use
/// the STACK WIN value.
#[tokio::test]
async fn x86_stack_win_parameter_size_ignored_for_public_symbols() {
    let modules = MinidumpModuleList::from_modules(vec![
        MinidumpModule::new(0x40000000, 0x10000, "module1"),
        MinidumpModule::new(0x50000000, 0x10000, "module2"),
    ]);
    let mut symbols = HashMap::new();
    // module1::wheedle: only a PUBLIC record (bogus parameter size 0) and a STACK WIN record
    // (true parameter size 0xc).
    symbols.insert(
        "module1".to_string(),
        [
            "PUBLIC 1000 0 module1::wheedle\n",
            "STACK WIN 4 1000 100 0 0 c 0 10 0 1",
            " $T0 $ebp = $eip $T0 4 + ^ = $ebp $T0 ^ = $esp $T0 8 + =\n",
        ]
        .concat(),
    );
    symbols.insert(
        "module2".to_string(),
        [
            "FUNC aa85 176 0 module2::whine\n",
            "STACK WIN 4 aa85 176 0 0 4 10 4 0 1",
            " $T2 $esp .cbLocals + .cbSavedRegs + =",
            " $T0 .raSearchStart =",
            " $eip $T0 ^ =",
            " $esp $T0 4 + =",
            " $ebp $T0 20 - ^ =",
            " $ebx $T0 8 - ^ =\n",
        ]
        .concat(),
    );

    let frame0_ebp = Label::new();
    let frame1_esp = Label::new();
    let frame2_esp = Label::new();
    let frame2_ebp = Label::new();

    let stack = Section::new();
    stack.start().set_const(0x80000000);
    let stack = stack
        // frame 0, in module1::wheedle
        .append_repeated(0, 16)
        .mark(&frame0_ebp)
        .D32(0x6fa902e0) // saved %ebp
        .D32(0x5000aa95) // return address, in module2::whine
        // frame 1, in module2::whine
        .mark(&frame1_esp)
        .D32(0xbaa0cb7a) // argument 3 passed to module1::wheedle
        .D32(0xbdc92f9f) // argument 2
        .D32(0x0b1d8442) // argument 1
        .D32(&frame2_ebp) // saved %ebp
        .D32(0xb1b90a15) // unused
        .D32(0xf18e072d) // unused
        .D32(0x2558c7f3) // saved %ebx
        .D32(0x0365e25e) // unused
        .D32(0x2a179e38) // return address; $T0 points here
        .mark(&frame2_esp)
        .append_repeated(0, 12)
        .mark(&frame2_ebp)
        .D32(0)
        .D32(0);

    let mut raw = CONTEXT_X86::default();
    raw.eip = 0x40001004;
    raw.esp = 0x80000000;
    raw.ebp = frame0_ebp.value().unwrap() as u32;

    let bytes = stack.get_contents().unwrap();
    let s = walk(
        MinidumpRawContext::X86(raw),
        0x80000000,
        &bytes,
        &modules,
        symbols,
        Os::Windows,
        Cpu::X86,
    )
    .await;
    eprintln!("{}", dump(&s));

    assert_eq!(s.frames.len(), 3);
    assert_eq!(s.frames[0].function_name.as_deref(), Some("module1::wheedle"));
    assert_eq!(s.frames[1].resume_address, 0x5000aa95);
    let f2 = &s.frames[2];
    assert_eq!(f2.trust, FrameTrust::CallFrameInfo);
    assert_eq!(f2.resume_address, 0x2a179e38);
    assert_eq!(f2.context.get_stack_pointer(), frame2_esp.value().unwrap());
    assert_eq!(f2.context.get_register("ebp"), Some(frame2_ebp.value().unwrap()));
    assert_eq!(f2.context.get_register("ebx"), Some(0x2558c7f3));
}

/// ARM64 frame pointers: a thread whose stack lies above 2^47 (48-bit VA Linux) while the
/// modules are low (non-PIE executable). The saved fp must come back unchanged.
#[tokio::test]
async fn arm64_frame_pointer_truncated_for_stack_above_47_bits() {
    let modules = MinidumpModuleList::from_modules(vec![
        MinidumpModule::new(0x40000000, 0x10000, "module1"),
        MinidumpModule::new(0x50000000, 0x10000, "module2"),
    ]);
    let stack_start = 0x0000_ffff_8000_0000u64;
    let return_address1 = 0x50000100u64;
    let return_address2 = 0x50000900u64;
    let frame0_fp = Label::new();
    let frame1_sp = Label::new();
    let frame1_fp = Label::new();
    let frame2_sp = Label::new();
    let frame2_fp = Label::new();

    let stack = Section::new();
    stack.start().set_const(stack_start);
    let stack = stack
        .append_repeated(0, 64)
        .mark(&frame0_fp)
        .D64(&frame1_fp)
        .D64(return_address1)
        .mark(&frame1_sp)
        .append_repeated(0, 64)
        .mark(&frame1_fp)
        .D64(&frame2_fp)
        .D64(return_address2)
        .mark(&frame2_sp)
        .append_repeated(0, 64)
        .mark(&frame2_fp)
        .D64(0)
        .D64(0);

    let mut raw = CONTEXT_ARM64::default();
    raw.set_register("pc", 0x40005510);
    raw.set_register("lr", return_address1);
    raw.set_register("fp", frame0_fp.value().unwrap());
    raw.set_register("sp", stack_start);

    let bytes = stack.get_contents().unwrap();
    let s = walk(
        MinidumpRawContext::Arm64(raw),
        stack_start,
        &bytes,
        &modules,
        HashMap::new(),
        Os::Linux,
        Cpu::Arm64,
    )
    .await;
    eprintln!("{}", dump(&s));

    assert_eq!(s.frames.len(), 3);
    assert_eq!(s.frames[1].trust, FrameTrust::FramePointer);
    assert_eq!(
        s.frames[1].context.get_register("fp"),
        Some(frame1_fp.value().unwrap())
    );
    assert_eq!(s.frames[2].trust, FrameTrust::FramePointer);
    assert_eq!(s.frames[2].resume_address, return_address2);
    assert_eq!(
        s.frames[2].context.get_stack_pointer(),
        frame2_sp.value().unwrap()
    );
}
