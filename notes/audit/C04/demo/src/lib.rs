//! Shared helpers for the C04 audit tests: walk a synthetic thread through the public
//! `minidump_unwind::walk_stack` API.

use minidump::system_info::{Cpu, Os};
use minidump::*;
use minidump_unwind::*;
use std::collections::HashMap;

pub fn system_info(os: Os, cpu: Cpu) -> SystemInfo {
    SystemInfo {
        os,
        os_version: None,
        os_build: None,
        cpu,
        cpu_info: None,
        cpu_microcode_version: None,
        cpu_count: 1,
    }
}

/// Walk `raw` over the stack bytes `bytes` based at `base`.
pub async fn walk(
    raw: MinidumpRawContext,
    base: u64,
    bytes: &[u8],
    modules: &MinidumpModuleList,
    symbols: HashMap<String, String>,
    os: Os,
    cpu: Cpu,
) -> CallStack {
    let context = MinidumpContext {
        raw,
        valid: MinidumpContextValidity::All,
    };
    let stack_memory = MinidumpMemory {
        desc: Default::default(),
        base_address: base,
        size: bytes.len() as u64,
        bytes,
        endian: scroll::LE,
    };
    let symbolizer = Symbolizer::new(string_symbol_supplier(symbols));
    let mut stack = CallStack::with_context(context);
    walk_stack(
        0,
        (),
        &mut stack,
        Some(UnifiedMemory::Memory(&stack_memory)),
        modules,
        &system_info(os, cpu),
        &symbolizer,
    )
    .await;
    stack
}

pub fn dump(stack: &CallStack) -> String {
    let mut out = String::new();
    for (i, f) in stack.frames.iter().enumerate() {
        out.push_str(&format!(
            "#{i} instr={:#x} resume={:#x} sp={:#x} trust={:?} fn={:?} valid={:?}\n",
            f.instruction,
            f.resume_address,
            f.context.get_stack_pointer(),
            f.trust,
            f.function_name,
            f.context.valid
        ));
    }
    out
}
