//! A tiny scripted HTTP/1.1 server for the C16 audit tests.

use std::collections::HashMap;
use std::net::SocketAddr;
use std::sync::{Arc, Mutex};
use std::time::Duration;
use tokio::io::{AsyncReadExt, AsyncWriteExt};
use tokio::net::TcpListener;

/// How the server answers a request for a given path.
#[derive(Clone)]
pub enum Reply {
    /// `200 OK` with a `Content-Length` body, written in one go.
    Fixed(Vec<u8>),
    /// `200 OK` with `Transfer-Encoding: chunked`, one HTTP chunk per `chunk_size` bytes of body.
    Chunked(Vec<u8>, usize),
    /// A bare status line with an empty body.
    Status(u16),
}

pub struct Server {
    pub addr: SocketAddr,
    /// Paths (without query) requested so far.
    pub hits: Arc<Mutex<Vec<String>>>,
    handle: tokio::task::JoinHandle<()>,
}

impl Server {
    pub fn url(&self) -> String {
        format!("http://{}/", self.addr)
    }
    pub fn stop(self) {
        self.handle.abort();
    }
}

/// Serve `routes` (keyed by the request path without query) on 127.0.0.1; everything else is 404.
pub async fn serve(routes: HashMap<String, Reply>) -> Server {
    let listener = TcpListener::bind("127.0.0.1:0").await.unwrap();
    let addr = listener.local_addr().unwrap();
    let hits = Arc::new(Mutex::new(Vec::new()));
    let hits2 = hits.clone();
    let routes = Arc::new(routes);
    let handle = tokio::spawn(async move {
        loop {
            let (mut sock, _) = match listener.accept().await {
                Ok(x) => x,
                Err(_) => return,
            };
            let routes = routes.clone();
            let hits = hits2.clone();
            tokio::spawn(async move {
                // Read the request head.
                let mut head = Vec::new();
                let mut byte = [0u8; 1024];
                while !head.windows(4).any(|w| w == b"\r\n\r\n") {
                    match sock.read(&mut byte).await {
                        Ok(0) | Err(_) => return,
                        Ok(n) => head.extend_from_slice(&byte[..n]),
                    }
                }
                let head = String::from_utf8_lossy(&head).to_string();
                let target = head.split_whitespace().nth(1).unwrap_or("/").to_string();
                let path = target.split('?').next().unwrap().to_string();
                hits.lock().unwrap().push(path.clone());
                let reply = routes.get(&path).cloned().unwrap_or(Reply::Status(404));
                match reply {
                    Reply::Fixed(body) => {
                        let hdr = format!(
                            "HTTP/1.1 200 OK\r\nContent-Length: {}\r\nConnection: close\r\n\r\n",
                            body.len()
                        );
                        let _ = sock.write_all(hdr.as_bytes()).await;
                        let _ = sock.write_all(&body).await;
                    }
                    Reply::Chunked(body, chunk_size) => {
                        let hdr =
                            "HTTP/1.1 200 OK\r\nTransfer-Encoding: chunked\r\nConnection: close\r\n\r\n";
                        let _ = sock.write_all(hdr.as_bytes()).await;
                        for piece in body.chunks(chunk_size) {
                            let mut out = format!("{:x}\r\n", piece.len()).into_bytes();
                            out.extend_from_slice(piece);
                            out.extend_from_slice(b"\r\n");
                            if sock.write_all(&out).await.is_err() {
                                return;
                            }
                        }
                        let _ = sock.write_all(b"0\r\n\r\n").await;
                    }
                    Reply::Status(code) => {
                        let hdr = format!(
                            "HTTP/1.1 {code} Whatever\r\nContent-Length: 0\r\nConnection: close\r\n\r\n"
                        );
                        let _ = sock.write_all(hdr.as_bytes()).await;
                    }
                }
                let _ = sock.flush().await;
                let _ = sock.shutdown().await;
                tokio::time::sleep(Duration::from_millis(50)).await;
            });
        }
    });
    Server { addr, hits, handle }
}

/// All regular files below `dir`, relative to it.
pub fn files_under(dir: &std::path::Path) -> Vec<std::path::PathBuf> {
    fn walk(base: &std::path::Path, dir: &std::path::Path, out: &mut Vec<std::path::PathBuf>) {
        if let Ok(rd) = std::fs::read_dir(dir) {
            for e in rd.flatten() {
                let p = e.path();
                if p.is_dir() {
                    walk(base, &p, out);
                } else {
                    out.push(p.strip_prefix(base).unwrap().to_path_buf());
                }
            }
        }
    }
    let mut out = Vec::new();
    walk(dir, dir, &mut out);
    out.sort();
    out
}
