//! Confirming tests for pre-existing violations of property C16
//! ("the on-disk symbol cache only ever holds complete, parseable files").
//!
//! Every test FAILS on the unmodified tree.

use audit_c16_demo::{files_under, serve, Reply};
use breakpad_symbols::{
    FileKind, HttpSymbolSupplier, SimpleModule, SymbolFile, SymbolSupplier,
};
use debugid::DebugId;
use std::collections::HashMap;
use std::path::Path;
use std::time::Duration;

const ID: &str = "000102030405060708090A0B0C0D0E0F0";
const SYM_PATH: &str = "/foo.pdb/000102030405060708090A0B0C0D0E0F0/foo.sym";
const CACHE_REL: &str = "foo.pdb/000102030405060708090A0B0C0D0E0F0/foo.sym";

fn module() -> SimpleModule {
    SimpleModule::new("foo.pdb", DebugId::from_breakpad(ID).unwrap())
}

fn supplier(urls: Vec<String>, cache: &Path, tmp: &Path) -> HttpSymbolSupplier {
    HttpSymbolSupplier::new(
        urls,
        cache.to_path_buf(),
        tmp.to_path_buf(),
        vec![],
        Duration::from_secs(20),
    )
}

const GOOD: &[u8] = b"MODULE windows x86_64 000102030405060708090A0B0C0D0E0F0 foo.pdb\n\
FILE 0 foo.c\n\
FUNC 1000 10 0 some_function\n\
1000 10 42 0\n\
PUBLIC 2000 0 some_public\n";

/// Finding 1: `HttpSymbolSupplier::locate_file(.., FileKind::BreakpadSym)` (-> `fetch_lookup`)
/// downloads `<debug file>/<id>/<name>.sym` and persists the raw body at the very cache path that
/// `locate_symbols` reads symbol files from - without parsing it and without the URL note.
/// A 200 answer that is not a symbol file therefore lands in the symbol cache, and from then on
/// `locate_symbols` fails with a parse error for this module without ever asking the server again.
#[tokio::test]
async fn locate_file_breakpad_sym_puts_unparsed_body_in_symbol_cache() {
    let cache = tempfile::tempdir().unwrap();
    let tmp = tempfile::tempdir().unwrap();
    let garbage = b"<html><body>Sorry, we are down for maintenance</body></html>\n".to_vec();
    let server = serve(HashMap::from([(SYM_PATH.to_string(), Reply::Fixed(garbage))])).await;

    let s = supplier(vec![server.url()], cache.path(), tmp.path());
    let located = s.locate_file(&module(), FileKind::BreakpadSym).await;
    println!("locate_file -> {located:?}");
    assert_eq!(*server.hits.lock().unwrap(), vec![SYM_PATH.to_string()]);
    server.stop();

    // The property: whatever sits at a cache path is a completely downloaded file that parsed.
    for rel in files_under(cache.path()) {
        let path = cache.path().join(&rel);
        let parsed = SymbolFile::from_file(&path);
        assert!(
            parsed.is_ok(),
            "cache entry {rel:?} is not a parseable symbol file ({:?}); contents: {:?}",
            parsed.err(),
            String::from_utf8_lossy(&std::fs::read(&path).unwrap())
        );
    }
}

/// Finding 1, second face: the same path with a perfectly good symbol file. The entry is written
/// without the `INFO URL` note, so the lookup that is later served from the cache reports no URL
/// (a download through `locate_symbols` reports and stores it).
#[tokio::test]
async fn locate_file_breakpad_sym_caches_without_url_note() {
    let cache = tempfile::tempdir().unwrap();
    let tmp = tempfile::tempdir().unwrap();
    let server = serve(HashMap::from([(
        SYM_PATH.to_string(),
        Reply::Fixed(GOOD.to_vec()),
    )]))
    .await;
    let s = supplier(vec![server.url()], cache.path(), tmp.path());
    let located = s.locate_file(&module(), FileKind::BreakpadSym).await.unwrap();
    let expected_url = format!("{}{}", server.url(), &SYM_PATH[1..]);
    server.stop();

    let bytes = std::fs::read(&located).unwrap();
    assert_eq!(located, cache.path().join(CACHE_REL));
    let mut expected = GOOD.to_vec();
    expected.extend_from_slice(format!("INFO URL {expected_url}\n").as_bytes());
    assert_eq!(
        String::from_utf8_lossy(&bytes),
        String::from_utf8_lossy(&expected),
        "cache entry must be the downloaded bytes followed by the source-URL note"
    );
}

fn two_long_lines() -> Vec<u8> {
    let mut f = Vec::new();
    f.extend_from_slice(b"MODULE windows x86_64 000102030405060708090A0B0C0D0E0F0 foo.pdb\n");
    // A first 100 KiB name makes the parser grow its buffer to the 160 KiB maximum.
    f.extend_from_slice(b"PUBLIC 1000 0 ");
    f.extend(std::iter::repeat(b'a').take(100 * 1024));
    f.push(b'\n');
    // ~128 KiB of ordinary lines.
    let start = f.len();
    let mut i = 0u64;
    while f.len() - start < 128 * 1024 {
        f.extend_from_slice(
            format!("PUBLIC {:x} 0 filler_symbol_number_{}\n", 0x100000 + i * 16, i).as_bytes(),
        );
        i += 1;
    }
    // A second 100 KiB name (well inside the documented "at least 80KB, at most 160KB").
    f.extend_from_slice(b"PUBLIC 2000 0 ");
    f.extend(std::iter::repeat(b'b').take(100 * 1024));
    f.push(b'\n');
    f.extend_from_slice(b"PUBLIC 3000 0 tail\n");
    f
}

/// Finding 2: whether a long line (80..160 KiB) is parsed or thrown away by the "panic recovery"
/// of `SymbolFile::parse`/`parse_async` depends on how the bytes happen to arrive in the circular
/// buffer. Arriving as 4 KiB HTTP chunks the line is kept; re-read from the cache file (reads that
/// fill the whole buffer) the very same bytes lose that line. So the lookup served from the cache
/// yields a different symbol table than the download that created the entry.
#[tokio::test]
async fn cached_reparse_drops_long_line_that_the_download_kept() {
    let cache = tempfile::tempdir().unwrap();
    let tmp = tempfile::tempdir().unwrap();
    let body = two_long_lines();
    let server = serve(HashMap::from([(
        SYM_PATH.to_string(),
        Reply::Chunked(body.clone(), 4096),
    )]))
    .await;

    let s = supplier(vec![server.url()], cache.path(), tmp.path());
    let downloaded = s.locate_symbols(&module()).await.unwrap().symbols;
    server.stop();

    // The cache entry itself is fine: the downloaded bytes plus the note.
    let entry = std::fs::read(cache.path().join(CACHE_REL)).unwrap();
    assert!(entry.starts_with(&body));
    assert!(entry[body.len()..].starts_with(b"INFO URL http://127.0.0.1"));

    // Now a lookup without any server: it can only be served from the cache.
    let offline = supplier(vec![], cache.path(), tmp.path());
    let cached = offline.locate_symbols(&module()).await.unwrap().symbols;

    let names = |s: &SymbolFile| {
        s.publics
            .iter()
            .map(|p| (p.address, p.name.len()))
            .filter(|(a, _)| *a < 0x100000)
            .collect::<Vec<_>>()
    };
    assert_eq!(cached.url, downloaded.url);
    assert_eq!(
        names(&cached),
        names(&downloaded),
        "(address, name length) of the PUBLIC records outside the filler: cache vs download"
    );
    assert!(cached == downloaded, "symbol table from cache differs from the downloaded one");
}

/// Finding 3: a body whose last line is overlong (panic recovery) and not newline-terminated is
/// accepted as a complete parse. `commit_cache_file` then appends `INFO URL ...` directly behind
/// it, i.e. onto the same (discarded) line, so the note is not a record of the cached file and the
/// lookup served from the cache has lost the URL.
#[tokio::test]
async fn url_note_glued_to_unterminated_overlong_last_line() {
    let cache = tempfile::tempdir().unwrap();
    let tmp = tempfile::tempdir().unwrap();
    let mut body = GOOD.to_vec();
    body.extend_from_slice(b"PUBLIC 3000 0 ");
    body.extend(std::iter::repeat(b'z').take(400 * 1024)); // no trailing newline
    let server = serve(HashMap::from([(SYM_PATH.to_string(), Reply::Fixed(body.clone()))])).await;

    let s = supplier(vec![server.url()], cache.path(), tmp.path());
    let downloaded = s.locate_symbols(&module()).await.unwrap().symbols;
    server.stop();
    assert!(downloaded.url.as_deref().unwrap().starts_with("http://127.0.0.1"));
    assert!(cache.path().join(CACHE_REL).is_file(), "download was cached");

    let offline = supplier(vec![], cache.path(), tmp.path());
    let cached = offline.locate_symbols(&module()).await.unwrap().symbols;
    assert_eq!(
        cached.url, downloaded.url,
        "URL reported for the cached file vs for the download"
    );
}
