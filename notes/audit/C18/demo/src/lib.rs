// scratch crate for the C18 audit; the tests are under tests/
