//! Exhaustive exploration harness (not a finding by itself): compares the tables.
use minidump::{CpuContext, MinidumpContext, MinidumpContextValidity, MinidumpRawContext};
use minidump_common::format as md;
use scroll::Pread;
use std::collections::HashSet;
use std::fmt::Debug;

fn zeroed<T>() -> T
where
    T: for<'a> scroll::ctx::TryFromCtx<'a, scroll::Endian, Error = scroll::Error>,
{
    let bytes = vec![0u8; 8192];
    bytes.pread_with::<T>(0, scroll::LE).unwrap()
}

const UNKNOWN: &[&str] = &[
    "", "foo", "RIP", "rip ", " rip", "r32", "x31", "x32", "g_r32", "g8", "o8", "l8", "i8", "$rip",
    "eip2", "r-1", "r01", "x00", "s8", "cpsr", "mq2", "zero", "at", "v0", "a0", "t0", "k0",
];

fn check<T, F>(name: &str, aliases: &[(&'static str, &'static str)], wrap: F, errs: &mut Vec<String>)
where
    T: CpuContext + Clone,
    T: for<'a> scroll::ctx::TryFromCtx<'a, scroll::Endian, Error = scroll::Error>,
    T::Register: Copy + PartialEq + Debug + Into<u64> + TryFrom<u64>,
    <T::Register as TryFrom<u64>>::Error: Debug,
    F: Fn(T) -> MinidumpRawContext,
{
    let all = MinidumpContextValidity::All;
    let max: u64 = if std::mem::size_of::<T::Register>() == 4 { u32::MAX as u64 } else { u64::MAX };
    let conv = |v: u64| -> T::Register { T::Register::try_from(v & max).unwrap() };
    let canon_of = |n: &str| -> &'static str {
        for (a, c) in aliases { if *a == n { return c; } }
        T::REGISTERS.iter().find(|r| **r == n).copied().unwrap()
    };
    let mut names: Vec<&'static str> = T::REGISTERS.to_vec();
    names.extend(aliases.iter().map(|(a, _)| *a));
    // REGISTERS unique
    let uniq: HashSet<_> = T::REGISTERS.iter().collect();
    if uniq.len() != T::REGISTERS.len() { errs.push(format!("{name}: REGISTERS has duplicates")); }
    for (a, c) in aliases {
        if T::REGISTERS.contains(a) { errs.push(format!("{name}: alias {a} in REGISTERS")); }
        if !T::REGISTERS.contains(c) { errs.push(format!("{name}: canon {c} not in REGISTERS")); }
    }

    for &n in &names {
        for val in [0u64, 1, 0x1234_5678_9abc_def0, u64::MAX] {
            // fill all registers with distinct background values
            let mut ctx: T = zeroed();
            for (i, r) in T::REGISTERS.iter().enumerate() {
                ctx.set_register(r, conv(0x1111_0000_0000_1000 + i as u64)).unwrap();
            }
            let before: Vec<_> = T::REGISTERS.iter().map(|r| ctx.get_register_always(r)).collect();
            for (i, r) in T::REGISTERS.iter().enumerate() {
                if before[i] != conv(0x1111_0000_0000_1000 + i as u64) {
                    errs.push(format!("{name}: background {r} clobbered"));
                }
            }
            if ctx.set_register(n, conv(val)).is_none() { errs.push(format!("{name}: set {n} None")); continue; }
            if ctx.get_register_always(n) != conv(val) { errs.push(format!("{name}: roundtrip {n}")); }
            if ctx.get_register(n, &all) != Some(conv(val)) { errs.push(format!("{name}: get(All) {n}")); }
            let c = canon_of(n);
            if ctx.memoize_register(n) != Some(c) { errs.push(format!("{name}: memoize {n} -> {:?} want {c}", ctx.memoize_register(n))); }
            for (i, r) in T::REGISTERS.iter().enumerate() {
                let now = ctx.get_register_always(r);
                if *r == c { if now != conv(val) { errs.push(format!("{name}: set {n} not visible via {r}")); } }
                else if now != before[i] { errs.push(format!("{name}: set {n} changed {r}")); }
            }
            // all names of the same register agree
            for &m in &names { if canon_of(m) == c && ctx.get_register_always(m) != conv(val) { errs.push(format!("{name}: alias {m} of {n} differs")); } }
            // format
            let w = std::mem::size_of::<T::Register>() * 2;
            let want = format!("0x{:0w$x}", val & max, w = w);
            if ctx.format_register(n) != want { errs.push(format!("{name}: format {n} {} want {want}", ctx.format_register(n))); }
            // wrapper
            let sp = ctx.stack_pointer_register_name();
            let ip = ctx.instruction_pointer_register_name();
            let spv: u64 = ctx.get_register_always(sp).into();
            let ipv: u64 = ctx.get_register_always(ip).into();
            let mc = MinidumpContext::from_raw(wrap(ctx.clone()));
            if mc.get_stack_pointer() != spv { errs.push(format!("{name}: sp accessor")); }
            if mc.get_instruction_pointer() != ipv { errs.push(format!("{name}: ip accessor")); }
            if mc.get_register(n) != Some(val & max) { errs.push(format!("{name}: mc.get {n}")); }
            if mc.get_register_always(n) != (val & max) { errs.push(format!("{name}: mc.get_always {n}")); }
            if mc.format_register(n) != want { errs.push(format!("{name}: mc.format {n}")); }
            if mc.register_size() != w / 2 { errs.push(format!("{name}: register_size")); }
            if canon_of(sp) == c && mc.get_stack_pointer() != (val & max) { errs.push(format!("{name}: sp accessor after set {n}")); }
            if canon_of(ip) == c && mc.get_instruction_pointer() != (val & max) { errs.push(format!("{name}: ip accessor after set {n}")); }
        }
    }
    // sp / ip names in REGISTERS
    let ctx: T = zeroed();
    if !T::REGISTERS.contains(&ctx.stack_pointer_register_name()) { errs.push(format!("{name}: sp name not in REGISTERS")); }
    if !T::REGISTERS.contains(&ctx.instruction_pointer_register_name()) { errs.push(format!("{name}: ip name not in REGISTERS")); }

    // enumerations
    let mut ctx: T = zeroed();
    for (i, r) in T::REGISTERS.iter().enumerate() { ctx.set_register(r, conv(u64::MAX - i as u64)).unwrap(); }
    let expect: Vec<(&'static str, T::Register)> = T::REGISTERS.iter().enumerate().map(|(i, r)| (*r, conv(u64::MAX - i as u64))).collect();
    let got: Vec<_> = ctx.registers().collect();
    if got != expect { errs.push(format!("{name}: registers()")); }
    let got: Vec<_> = ctx.valid_registers(&all).collect();
    if got != expect { errs.push(format!("{name}: valid_registers(All)")); }
    let mc = MinidumpContext::from_raw(wrap(ctx.clone()));
    let expect64: Vec<(&'static str, u64)> = expect.iter().map(|(r, v)| (*r, (*v).into())).collect();
    if mc.registers().collect::<Vec<_>>() != expect64 { errs.push(format!("{name}: mc.registers()")); }
    if mc.valid_registers().collect::<Vec<_>>() != expect64 { errs.push(format!("{name}: mc.valid_registers(All)")); }
    if mc.general_purpose_registers() != T::REGISTERS { errs.push(format!("{name}: gpr list")); }

    // validity sets
    let mut sets: Vec<HashSet<&'static str>> = vec![HashSet::new()];
    for &n in &names { sets.push([n].into_iter().collect()); }
    sets.push(T::REGISTERS.iter().copied().collect());
    sets.push(names.iter().copied().collect());
    // alias + canon both
    for (a, c) in aliases { sets.push([*a, *c].into_iter().collect()); }
    for set in sets {
        let canon_valid: HashSet<&'static str> = set.iter().map(|n| canon_of(n)).collect();
        let v = MinidumpContextValidity::Some(set.clone());
        for &n in &names {
            let want = canon_valid.contains(canon_of(n));
            if ctx.register_is_valid(n, &v) != want { errs.push(format!("{name}: is_valid {n} in {set:?}")); }
            let wantv = if want { Some(ctx.get_register_always(n)) } else { None };
            if ctx.get_register(n, &v) != wantv { errs.push(format!("{name}: get {n} in {set:?}")); }
            let mut mc = MinidumpContext::from_raw(wrap(ctx.clone()));
            mc.valid = v.clone();
            if mc.get_register(n) != wantv.map(Into::into) { errs.push(format!("{name}: mc.get {n} in {set:?}")); }
        }
        let expect_v: Vec<_> = expect.iter().filter(|(r, _)| canon_valid.contains(r)).cloned().collect();
        if ctx.valid_registers(&v).collect::<Vec<_>>() != expect_v { errs.push(format!("{name}: valid_registers {set:?}")); }
        // registers() ignores validity
        let mut mc = MinidumpContext::from_raw(wrap(ctx.clone()));
        mc.valid = v.clone();
        let e64: Vec<(&'static str, u64)> = expect_v.iter().map(|(r, v)| (*r, (*v).into())).collect();
        if mc.valid_registers().collect::<Vec<_>>() != e64 { errs.push(format!("{name}: mc.valid_registers {set:?}")); }
        if mc.registers().collect::<Vec<_>>() != expect64 { errs.push(format!("{name}: mc.registers under {set:?}")); }
        for u in UNKNOWN {
            if names.contains(u) { continue; }
            let r = std::panic::catch_unwind(std::panic::AssertUnwindSafe(|| ctx.get_register(u, &v)));
            match r { Ok(None) => {}, Ok(Some(_)) => errs.push(format!("{name}: unknown {u:?} Some under set")), Err(_) => errs.push(format!("{name}: unknown {u:?} panics under set")) }
        }
    }
    // unknown names
    for u in UNKNOWN {
        if names.contains(u) { continue; }
        let mut c2 = ctx.clone();
        let r = std::panic::catch_unwind(std::panic::AssertUnwindSafe(|| {
            (ctx.get_register(u, &all), ctx.memoize_register(u), ctx.register_is_valid(u, &all), c2.set_register(u, conv(5)))
        }));
        match r {
            Ok((None, None, false, None)) => {}
            Ok(x) => errs.push(format!("{name}: unknown {u:?} -> {x:?}")),
            Err(_) => errs.push(format!("{name}: unknown {u:?} panics (All)")),
        }
        let mc = MinidumpContext::from_raw(wrap(ctx.clone()));
        let r = std::panic::catch_unwind(std::panic::AssertUnwindSafe(|| mc.get_register(u)));
        if !matches!(r, Ok(None)) { errs.push(format!("{name}: mc unknown {u:?} -> {r:?}")); }
    }
}

#[test]
fn explore_all() {
    std::panic::set_hook(Box::new(|_| {}));
    let mut errs = vec![];
    check::<md::CONTEXT_X86, _>("x86", &[], MinidumpRawContext::X86, &mut errs);
    check::<md::CONTEXT_AMD64, _>("amd64", &[], MinidumpRawContext::Amd64, &mut errs);
    check::<md::CONTEXT_ARM, _>("arm", &[("r11", "fp"), ("r13", "sp"), ("r14", "lr"), ("r15", "pc")], MinidumpRawContext::Arm, &mut errs);
    check::<md::CONTEXT_ARM64, _>("arm64", &[("x29", "fp"), ("x30", "lr")], MinidumpRawContext::Arm64, &mut errs);
    check::<md::CONTEXT_ARM64_OLD, _>("arm64old", &[("x29", "fp"), ("x30", "lr")], MinidumpRawContext::OldArm64, &mut errs);
    check::<md::CONTEXT_PPC, _>("ppc", &[], MinidumpRawContext::Ppc, &mut errs);
    check::<md::CONTEXT_PPC64, _>("ppc64", &[], MinidumpRawContext::Ppc64, &mut errs);
    check::<md::CONTEXT_MIPS, _>("mips", &[], MinidumpRawContext::Mips, &mut errs);
    let sparc: Vec<(&'static str, &'static str)> = {
        let mut v = vec![];
        let canon = md::CONTEXT_SPARC::REGISTERS;
        for (k, p) in ["g", "o", "l", "i"].iter().enumerate() {
            for j in 0..8 {
                let a: &'static str = Box::leak(format!("{p}{j}").into_boxed_str());
                v.push((a, canon[k * 8 + j]));
            }
        }
        v
    };
    check::<md::CONTEXT_SPARC, _>("sparc", &sparc, MinidumpRawContext::Sparc, &mut errs);
    errs.sort(); errs.dedup();
    for e in &errs { eprintln!("{e}"); }
    assert!(errs.is_empty(), "{} discrepancies", errs.len());
}
