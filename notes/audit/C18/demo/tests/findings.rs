//! C18: confirmed violation(s) on the unmodified tree.
use minidump::{CpuContext, MinidumpContext, MinidumpContextValidity, MinidumpRawContext};
use minidump_common::format as md;
use scroll::Pread;
use std::collections::HashSet;
use std::panic::{catch_unwind, AssertUnwindSafe};

fn zeroed<T>() -> T
where
    T: for<'a> scroll::ctx::TryFromCtx<'a, scroll::Endian, Error = scroll::Error>,
{
    vec![0u8; 8192].pread_with::<T>(0, scroll::LE).unwrap()
}

fn all_contexts() -> Vec<(&'static str, MinidumpRawContext)> {
    vec![
        ("x86", MinidumpRawContext::X86(zeroed::<md::CONTEXT_X86>())),
        ("amd64", MinidumpRawContext::Amd64(zeroed::<md::CONTEXT_AMD64>())),
        ("arm", MinidumpRawContext::Arm(zeroed::<md::CONTEXT_ARM>())),
        ("arm64", MinidumpRawContext::Arm64(zeroed::<md::CONTEXT_ARM64>())),
        ("arm64_old", MinidumpRawContext::OldArm64(zeroed::<md::CONTEXT_ARM64_OLD>())),
        ("ppc", MinidumpRawContext::Ppc(zeroed::<md::CONTEXT_PPC>())),
        ("ppc64", MinidumpRawContext::Ppc64(zeroed::<md::CONTEXT_PPC64>())),
        ("sparc", MinidumpRawContext::Sparc(zeroed::<md::CONTEXT_SPARC>())),
        ("mips", MinidumpRawContext::Mips(zeroed::<md::CONTEXT_MIPS>())),
    ]
}

/// Reading an unknown register name must report absence (`None`), whatever the validity
/// set says.  With `MinidumpContextValidity::Some(set)` the name is only looked up in the
/// set, so a name in the set that is no register of this CPU (here: "foo", and "rip" on
/// everything but amd64) makes `get_register` reach `unreachable!()` in
/// `get_register_always` and panic.  (With `All` the same call returns `None`.)
#[test]
fn get_register_unknown_name_in_validity_set_panics() {
    let mut failures = vec![];
    for unknown in ["foo", "rip"] {
        for (cpu, raw) in all_contexts() {
            if cpu == "amd64" && unknown == "rip" {
                continue;
            }
            let mut ctx = MinidumpContext::from_raw(raw);
            // Baseline: under `All` the unknown name is absent.
            assert_eq!(ctx.get_register(unknown), None, "{cpu} {unknown} under All");
            let set: HashSet<&'static str> = [unknown].into_iter().collect();
            ctx.valid = MinidumpContextValidity::Some(set);
            match catch_unwind(AssertUnwindSafe(|| ctx.get_register(unknown))) {
                Ok(None) => {}
                Ok(Some(v)) => failures.push(format!("{cpu}: get_register({unknown:?}) = Some({v:#x})")),
                Err(_) => failures.push(format!("{cpu}: get_register({unknown:?}) panicked")),
            }
            // The enumeration of valid registers must not list it either (this part holds).
            assert_eq!(ctx.valid_registers().count(), 0, "{cpu}");
        }
    }
    // Same through the CpuContext trait method.
    let x86 = zeroed::<md::CONTEXT_X86>();
    let v = MinidumpContextValidity::Some(["foo"].into_iter().collect());
    if catch_unwind(AssertUnwindSafe(|| x86.get_register("foo", &v))).is_err() {
        failures.push("x86 (trait): CpuContext::get_register(\"foo\", Some{foo}) panicked".into());
    }
    assert!(
        failures.is_empty(),
        "unknown register names must read as None:\n{}",
        failures.join("\n")
    );
}
