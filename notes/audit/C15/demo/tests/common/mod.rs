#![allow(dead_code)]
//! Shared helpers: build synthetic minidumps, process them through the public
//! `minidump_processor::process_minidump` API, print the JSON report and check it
//! against minidump-processor/json-schema.md.

use std::collections::HashMap;

use minidump::Minidump;
use minidump_processor::ProcessState;
use minidump_synth::*;
use minidump_unwind::{string_symbol_supplier, Symbolizer};
use serde_json::Value;
use test_assembler::*;

pub const LE: Endian = Endian::Little;

pub const ARCH_X86: u16 = 0;
pub const ARCH_MIPS: u16 = 1;
pub const ARCH_PPC: u16 = 3;
pub const ARCH_ARM: u16 = 5;
pub const ARCH_AMD64: u16 = 9;
pub const ARCH_ARM64: u16 = 12;

pub const PLATFORM_WINDOWS: u32 = 2;
pub const PLATFORM_LINUX: u32 = 0x8201;

pub fn system_info(arch: u16, platform: u32) -> SystemInfo {
    SystemInfo::new(LE)
        .set_processor_architecture(arch)
        .set_platform_id(platform)
}

pub async fn process(dump: SynthMinidump, symbols: HashMap<String, String>) -> ProcessState {
    let bytes = dump.finish().unwrap();
    let dump = Minidump::read(bytes).unwrap();
    minidump_processor::process_minidump(&dump, &Symbolizer::new(string_symbol_supplier(symbols)))
        .await
        .unwrap()
}

/// Print the JSON report; panics inside `print_json` are turned into an `Err`.
pub fn try_json(state: &ProcessState) -> Result<Value, String> {
    let res = std::panic::catch_unwind(std::panic::AssertUnwindSafe(|| {
        let mut out = Vec::new();
        state
            .print_json(&mut out, false)
            .map_err(|e| format!("print_json error: {e}"))?;
        let text = String::from_utf8(out).map_err(|e| format!("output is not UTF-8: {e}"))?;
        serde_json::from_str::<Value>(&text).map_err(|e| format!("output is not JSON: {e}"))
    }));
    match res {
        Ok(r) => r,
        Err(p) => {
            let msg = p
                .downcast_ref::<String>()
                .cloned()
                .or_else(|| p.downcast_ref::<&str>().map(|s| s.to_string()))
                .unwrap_or_else(|| "<non-string panic>".into());
            Err(format!("print_json panicked: {msg}"))
        }
    }
}

pub fn is_hexstring(v: &Value) -> bool {
    match v.as_str() {
        Some(s) => {
            s.len() > 2
                && s.starts_with("0x")
                && s[2..].bytes().all(|b| b.is_ascii_hexdigit())
                && u64::from_str_radix(&s[2..], 16).is_ok()
        }
        None => false,
    }
}

pub fn hex(v: &Value) -> u64 {
    assert!(is_hexstring(v), "not a <hexstring>: {v}");
    u64::from_str_radix(&v.as_str().unwrap()[2..], 16).unwrap()
}

fn opt_hex(errors: &mut Vec<String>, what: &str, v: &Value, digits: usize) {
    if v.is_null() {
        return;
    }
    if !is_hexstring(v) {
        errors.push(format!("{what}: {v} is not a <hexstring>"));
    } else if v.as_str().unwrap().len() < 2 + digits {
        errors.push(format!("{what}: {v} is not padded to {digits} digits"));
    }
}

fn opt_str(errors: &mut Vec<String>, what: &str, v: &Value) {
    if !(v.is_null() || v.is_string()) {
        errors.push(format!("{what}: {v} is not a <string>"));
    }
}

fn opt_u32(errors: &mut Vec<String>, what: &str, v: &Value) {
    if v.is_null() {
        return;
    }
    match v.as_u64() {
        Some(n) if n <= u32::MAX as u64 => {}
        _ => errors.push(format!("{what}: {v} is not a <u32>")),
    }
}

fn opt_bool(errors: &mut Vec<String>, what: &str, v: &Value) {
    if !(v.is_null() || v.is_boolean()) {
        errors.push(format!("{what}: {v} is not a <bool>"));
    }
}

fn check_frames(errors: &mut Vec<String>, what: &str, thread: &Value, json: &Value, digits: usize) {
    let frames = match thread["frames"].as_array() {
        Some(f) => f,
        None => {
            errors.push(format!("{what}.frames is not an array"));
            return;
        }
    };
    if thread["frame_count"].as_u64() != Some(frames.len() as u64) {
        errors.push(format!("{what}.frame_count != frames.len()"));
    }
    opt_str(errors, &format!("{what}.thread_name"), &thread["thread_name"]);
    opt_str(errors, &format!("{what}.last_error_value"), &thread["last_error_value"]);
    opt_u32(errors, &format!("{what}.thread_id"), &thread["thread_id"]);
    for (i, frame) in frames.iter().enumerate() {
        let w = format!("{what}.frames[{i}]");
        if frame["frame"].as_u64() != Some(i as u64) {
            errors.push(format!("{w}.frame is {}", frame["frame"]));
        }
        match frame["trust"].as_str() {
            Some("none" | "scan" | "cfi_scan" | "frame_pointer" | "cfi" | "context" | "prewalked") => {}
            other => errors.push(format!("{w}.trust is {other:?}")),
        }
        opt_hex(errors, &format!("{w}.offset"), &frame["offset"], digits);
        opt_hex(errors, &format!("{w}.module_offset"), &frame["module_offset"], digits);
        opt_hex(errors, &format!("{w}.function_offset"), &frame["function_offset"], digits);
        opt_str(errors, &format!("{w}.module"), &frame["module"]);
        opt_str(errors, &format!("{w}.function"), &frame["function"]);
        opt_str(errors, &format!("{w}.file"), &frame["file"]);
        opt_u32(errors, &format!("{w}.line"), &frame["line"]);
        opt_bool(errors, &format!("{w}.missing_symbols"), &frame["missing_symbols"]);
        if frame["missing_symbols"].as_bool() != Some(frame["function"].is_null()) {
            errors.push(format!("{w}.missing_symbols disagrees with function"));
        }
        if frame["module"].is_null() != frame["module_offset"].is_null() {
            errors.push(format!("{w}: module and module_offset not both present"));
        }
        if let (Some(name), true) = (frame["module"].as_str(), is_hexstring(&frame["offset"])) {
            let offset = hex(&frame["offset"]);
            // module_offset == offset - base of a module with that name which covers offset
            let ok = json["modules"].as_array().into_iter().flatten().any(|m| {
                m["filename"].as_str() == Some(name)
                    && is_hexstring(&m["base_addr"])
                    && is_hexstring(&frame["module_offset"])
                    && offset.checked_sub(hex(&m["base_addr"])) == Some(hex(&frame["module_offset"]))
            });
            if !ok {
                errors.push(format!("{w}.module_offset is not offset - base of module {name:?}"));
            }
        }
        if let Some(regs) = frame.get("registers") {
            match regs.as_object() {
                Some(map) => {
                    for (k, v) in map {
                        opt_hex(errors, &format!("{w}.registers.{k}"), v, 1);
                    }
                }
                None => errors.push(format!("{w}.registers is not an object")),
            }
        }
        if let Some(unloaded) = frame["unloaded_modules"].as_array() {
            for u in unloaded {
                opt_str(errors, &format!("{w}.unloaded_modules.module"), &u["module"]);
                match u["offsets"].as_array() {
                    Some(offs) if !offs.is_empty() => {
                        for o in offs {
                            opt_hex(errors, &format!("{w}.unloaded_modules.offsets"), o, digits);
                        }
                    }
                    _ => errors.push(format!("{w}.unloaded_modules.offsets empty or absent")),
                }
            }
        }
        if let Some(inlines) = frame["inlines"].as_array() {
            for inl in inlines {
                opt_str(errors, &format!("{w}.inlines.function"), &inl["function"]);
                opt_str(errors, &format!("{w}.inlines.file"), &inl["file"]);
                opt_u32(errors, &format!("{w}.inlines.line"), &inl["line"]);
            }
        }
    }
}

/// Check a JSON report against the schema document and the cross-field rules of C15.
/// `digits` is the number of hex digits of the crashing platform's pointer width.
pub fn schema_errors(json: &Value, state: &ProcessState, digits: usize) -> Vec<String> {
    let mut e = Vec::new();
    let errors = &mut e;

    if json["status"] != "OK" {
        errors.push("status".into());
    }
    opt_u32(errors, "pid", &json["pid"]);

    // system_info
    let si = &json["system_info"];
    match si["os"].as_str() {
        Some("Windows NT" | "Mac OS X" | "iOS" | "Linux" | "Solaris" | "Android" | "PS3" | "NaCl") => {}
        _ => {
            if !is_hexstring(&si["os"]) {
                errors.push(format!("system_info.os: {} is neither a known OS nor a <hexstring>", si["os"]));
            }
        }
    }
    match si["cpu_arch"].as_str() {
        Some("x86" | "amd64" | "ppc" | "ppc64" | "sparc" | "arm" | "arm64" | "mips" | "mips64" | "unknown") => {}
        other => errors.push(format!("system_info.cpu_arch is {other:?}")),
    }
    opt_str(errors, "system_info.os_ver", &si["os_ver"]);
    opt_str(errors, "system_info.cpu_info", &si["cpu_info"]);
    opt_u32(errors, "system_info.cpu_count", &si["cpu_count"]);
    opt_hex(errors, "system_info.cpu_microcode_version", &si["cpu_microcode_version"], 1);

    // crash_info
    let ci = &json["crash_info"];
    opt_str(errors, "crash_info.type", &ci["type"]);
    opt_hex(errors, "crash_info.address", &ci["address"], digits);
    opt_str(errors, "crash_info.instruction", &ci["instruction"]);
    opt_str(errors, "crash_info.assertion", &ci["assertion"]);
    opt_u32(errors, "crash_info.crashing_thread", &ci["crashing_thread"]);
    if let Some(adj) = ci["adjusted_address"].as_object() {
        match adj.get("kind").and_then(|k| k.as_str()) {
            Some("non-canonical") => opt_hex(errors, "adjusted_address.address", &adj["address"], digits),
            Some("null-pointer") => opt_hex(errors, "adjusted_address.offset", &adj["offset"], digits),
            other => errors.push(format!("adjusted_address.kind is {other:?}")),
        }
    }
    if let Some(list) = ci["memory_accesses"].as_array() {
        for a in list {
            opt_hex(errors, "memory_accesses.address", &a["address"], digits);
            opt_u32(errors, "memory_accesses.size", &a["size"]);
            match a.get("access_type").map(|v| v.as_str()) {
                None | Some(Some("read" | "write" | "readwrite")) => {}
                other => errors.push(format!("memory_accesses.access_type is {other:?}")),
            }
        }
    }
    if let Some(upd) = ci["instruction_pointer_update"].as_object() {
        opt_hex(errors, "instruction_pointer_update.address", &upd["address"], digits);
    }
    if let Some(list) = ci["possible_bit_flips"].as_array() {
        for b in list {
            opt_hex(errors, "possible_bit_flips.address", &b["address"], digits);
            opt_str(errors, "possible_bit_flips.source_register", &b["source_register"]);
            if !(b["confidence"].is_null() || b["confidence"].is_number()) {
                errors.push("possible_bit_flips.confidence".into());
            }
        }
    }

    // threads
    match json["threads"].as_array() {
        Some(threads) => {
            if json["thread_count"].as_u64() != Some(threads.len() as u64) {
                errors.push("thread_count != threads.len()".into());
            }
            if threads.len() != state.threads.len() {
                errors.push("threads.len() != state.threads.len()".into());
            }
            for (i, t) in threads.iter().enumerate() {
                check_frames(errors, &format!("threads[{i}]"), t, json, digits);
                for f in t["frames"].as_array().into_iter().flatten() {
                    if f.get("registers").is_some() {
                        errors.push(format!("threads[{i}] frame has registers"));
                    }
                }
            }
            // crashing thread copy
            if let Some(idx) = ci["crashing_thread"].as_u64() {
                match threads.get(idx as usize) {
                    None => errors.push("crash_info.crashing_thread out of range".into()),
                    Some(orig) => {
                        if let Some(copy) = json.get("crashing_thread") {
                            check_frames(errors, "crashing_thread", copy, json, digits);
                            if copy["threads_index"].as_u64() != Some(idx) {
                                errors.push("crashing_thread.threads_index".into());
                            }
                            let mut stripped = copy.clone();
                            stripped.as_object_mut().unwrap().remove("threads_index");
                            let regs = stripped["frames"][0]
                                .as_object_mut()
                                .and_then(|f| f.remove("registers"));
                            if regs.is_none() {
                                errors.push("crashing_thread.frames[0].registers missing".into());
                            }
                            if &stripped != orig {
                                errors.push("crashing_thread is not threads[idx] + registers".into());
                            }
                        } else if orig["frame_count"].as_u64() != Some(0) {
                            errors.push("crashing_thread missing although the thread has frames".into());
                        }
                    }
                }
            } else if json.get("crashing_thread").is_some() {
                errors.push("crashing_thread present without crash_info.crashing_thread".into());
            }
        }
        None => errors.push("threads is not an array".into()),
    }

    // modules
    match json["modules"].as_array() {
        Some(modules) => {
            let list: Vec<_> = state.modules.iter().collect();
            if modules.len() != list.len() {
                errors.push("modules.len() != module list length".into());
            }
            if let Some(mm) = json["main_module"].as_u64() {
                if !modules.is_empty() && mm as usize >= modules.len() {
                    errors.push("main_module out of range".into());
                }
            }
            for (i, (m, raw)) in modules.iter().zip(list.iter()).enumerate() {
                let w = format!("modules[{i}]");
                opt_hex(errors, &format!("{w}.base_addr"), &m["base_addr"], digits);
                opt_hex(errors, &format!("{w}.end_addr"), &m["end_addr"], digits);
                for k in ["debug_file", "debug_id", "filename", "code_id", "version", "cert_subject", "symbol_url"] {
                    opt_str(errors, &format!("{w}.{k}"), &m[k]);
                }
                for k in ["missing_symbols", "loaded_symbols", "corrupt_symbols"] {
                    opt_bool(errors, &format!("{w}.{k}"), &m[k]);
                }
                if is_hexstring(&m["base_addr"]) && hex(&m["base_addr"]) != raw.raw.base_of_image {
                    errors.push(format!("{w}.base_addr does not mirror the module list"));
                }
                if is_hexstring(&m["base_addr"]) && is_hexstring(&m["end_addr"]) {
                    if hex(&m["end_addr"]) < hex(&m["base_addr"]) {
                        errors.push(format!("{w}.end_addr < base_addr"));
                    }
                }
            }
        }
        None => errors.push("modules is not an array".into()),
    }
    match json["unloaded_modules"].as_array() {
        Some(modules) => {
            if modules.len() != state.unloaded_modules.iter().count() {
                errors.push("unloaded_modules.len() != list length".into());
            }
            for (i, m) in modules.iter().enumerate() {
                let w = format!("unloaded_modules[{i}]");
                opt_hex(errors, &format!("{w}.base_addr"), &m["base_addr"], digits);
                opt_hex(errors, &format!("{w}.end_addr"), &m["end_addr"], digits);
                opt_str(errors, &format!("{w}.filename"), &m["filename"]);
                opt_str(errors, &format!("{w}.code_id"), &m["code_id"]);
                if is_hexstring(&m["base_addr"]) && is_hexstring(&m["end_addr"]) {
                    if hex(&m["end_addr"]) < hex(&m["base_addr"]) {
                        errors.push(format!("{w}.end_addr < base_addr"));
                    }
                }
            }
        }
        None => errors.push("unloaded_modules is not an array".into()),
    }

    // handles
    if let Some(handles) = json["handles"].as_array() {
        for (i, h) in handles.iter().enumerate() {
            opt_u32(errors, &format!("handles[{i}].handle"), &h["handle"]);
            opt_str(errors, &format!("handles[{i}].type_name"), &h["type_name"]);
            opt_str(errors, &format!("handles[{i}].object_name"), &h["object_name"]);
        }
    } else if !json["handles"].is_null() {
        errors.push("handles is not an array".into());
    }

    // lsb_release / mac / misc
    if let Some(lsb) = json["lsb_release"].as_object() {
        for k in ["id", "release", "codename", "description"] {
            opt_str(errors, &format!("lsb_release.{k}"), &lsb[k]);
        }
    }
    opt_u32(errors, "linux_memory_map_count", &json["linux_memory_map_count"]);
    opt_str(errors, "mac_boot_args", &json["mac_boot_args"]);
    match &json["soft_errors"] {
        Value::Null => {}
        Value::Array(items) => {
            for it in items {
                if !it.is_object() {
                    errors.push(format!("soft_errors item {it} is not an <object>"));
                }
            }
        }
        other => errors.push(format!("soft_errors: {other} is not an array")),
    }
    e
}

/// Standard pieces of a dump: one thread (id 0x1234) with a zeroed 4 KiB stack at 0x1000.
pub fn stack_memory() -> Memory {
    Memory::with_section(Section::with_endian(LE).append_repeated(0, 0x1000), 0x1000)
}
