//! One test per confirmed finding for property C15 (JSON output is always valid,
//! schema-conformant and self-consistent). Every test goes through the public API
//! (`Minidump::read` -> `process_minidump` -> `ProcessState::print_json`) and FAILS on the
//! unmodified tree because the report does not match minidump-processor/json-schema.md.

mod common;
use common::*;
use minidump_synth::*;
use std::collections::HashMap;

/// A minimal amd64 dump: one thread with a context and a stack, plus system info.
fn amd64_dump(platform: u32) -> SynthMinidump {
    let context = amd64_context(LE, 0x7000_0000_1010, 0x1010);
    let stack = stack_memory();
    let thread = Thread::new(LE, 0x1234, &stack, &context);
    SynthMinidump::with_endian(LE)
        .add_thread(thread)
        .add_system_info(system_info(ARCH_AMD64, platform))
        .add(context)
        .add_memory(stack)
}

/// json-schema.md: `"os": "Windows NT" | ... | "NaCl" | <hexstring>, // (unknown, here's the
/// raw OS code)`. For a platform id the reader does not know, `Os::long_name` formats the code
/// with `format!("0x{val:#08x}")`, i.e. with two "0x" prefixes: "0x0x001234".
#[tokio::test]
async fn unknown_os_is_not_a_hexstring() {
    let state = process(amd64_dump(0x1234), HashMap::new()).await;
    let json = try_json(&state).unwrap();
    let os = &json["system_info"]["os"];
    assert!(
        is_hexstring(os),
        "system_info.os for the unknown platform id 0x1234 must be a <hexstring>, got {os}"
    );
    assert_eq!(hex(os), 0x1234);
}

/// json-schema.md: `"soft_errors": [ <object> ]`. The processor parses the MozSoftErrors stream
/// as JSON and forwards whatever value it finds, so a dump whose stream holds an object, a
/// string or a number puts a value of the wrong type under "soft_errors".
#[tokio::test]
async fn soft_errors_of_the_wrong_type_are_passed_through() {
    for stream in ["{\"a\":1}", "\"text\"", "42", "[1,\"x\"]"] {
        let dump = amd64_dump(PLATFORM_LINUX).set_soft_errors(stream);
        let state = process(dump, HashMap::new()).await;
        let json = try_json(&state).unwrap();
        let se = &json["soft_errors"];
        let ok = se.is_null()
            || se
                .as_array()
                .is_some_and(|items| items.iter().all(|item| item.is_object()));
        assert!(
            ok,
            "soft_errors must be null or an array of objects; stream {stream} produced {se}"
        );
    }
}

/// json-schema.md: `"handles": [ { "handle": <u32>, ... } ]` (and the Types section explains
/// that 64-bit quantities are emitted as <hexstring>s because JSON consumers use doubles).
/// MINIDUMP_HANDLE_DESCRIPTOR.handle is a u64 and is written as a bare JSON number.
#[tokio::test]
async fn handle_value_does_not_fit_the_documented_u32() {
    let type_name = DumpString::new("File", LE);
    let handle = HandleDescriptor::new(LE, 0x1_0000_0004, Some(&type_name), None, 0, 0, 0, 0);
    let dump = amd64_dump(PLATFORM_WINDOWS)
        .add_handle_descriptor(handle)
        .add(type_name);
    let state = process(dump, HashMap::new()).await;
    let json = try_json(&state).unwrap();
    let value = &json["handles"][0]["handle"];
    let fits_u32 = value.as_u64().is_some_and(|n| n <= u32::MAX as u64);
    assert!(
        fits_u32 || is_hexstring(value),
        "handles[0].handle must be a <u32> (or a <hexstring>), got the bare number {value}"
    );
}

/// json-schema.md: `"main_module": <u32>` is "the index of the main module" in "modules".
/// Without a module list the report still says `"main_module": 0` next to `"modules": []`,
/// an index that points at no element (NOTE 2 of the schema: emit null when the data is missing).
#[tokio::test]
async fn main_module_index_dangles_when_there_are_no_modules() {
    let state = process(amd64_dump(PLATFORM_LINUX), HashMap::new()).await;
    let json = try_json(&state).unwrap();
    let modules = json["modules"].as_array().unwrap();
    assert!(modules.is_empty());
    match json.get("main_module").and_then(|m| m.as_u64()) {
        None => {}
        Some(idx) => panic!(
            "main_module is {idx} but modules has {} entries; expected null",
            modules.len()
        ),
    }
}

/// Sanity check for the helpers: an ordinary dump passes the whole schema/consistency check,
/// so the failures above are not artefacts of the checker.
#[tokio::test]
async fn ordinary_dump_passes_the_checker() {
    let name = DumpString::new("/usr/lib/libfoo.so", LE);
    let module = Module::new(LE, 0x7000_0000_0000, 0x10000, &name, 0, 0, None);
    let dump = amd64_dump(PLATFORM_LINUX).add_module(module).add(name);
    let state = process(dump, HashMap::new()).await;
    let json = try_json(&state).unwrap();
    assert_eq!(schema_errors(&json, &state, 16), Vec::<String>::new());
}
