// scratch crate for audit C15; see tests/
