// scratch crate for audit C03; the confirming tests are under tests/
