//! Confirming tests for audit C03: "Processing any dump with any symbols terminates, never
//! panics, always renders".
//!
//! Every test goes through the public API only (`Minidump::read`,
//! `process_minidump_with_options`, `ProcessState::print*`) and asserts what the property
//! demands, so every test FAILS on the unmodified tree.
//!
//! (The tests about the memory budget are in `c03_memory.rs`: they install a counting allocator
//! and so need a test binary of their own.)

use std::collections::HashMap;
use std::path::PathBuf;
use std::sync::atomic::{AtomicUsize, Ordering};

use minidump::Minidump;
use minidump_processor::{ProcessState, ProcessorOptions};
use minidump_synth::*;
use minidump_unwind::{
    string_symbol_supplier, FileError, FileKind, FillSymbolError, FrameSymbolizer, FrameWalker,
    SymbolProvider, SymbolStats, Symbolizer,
};
use test_assembler::*;

const LE: Endian = Endian::Little;

// MINIDUMP_SYSTEM_INFO::processor_architecture values
const ARCH_X86: u16 = 0;
const ARCH_AMD64: u16 = 9;
const ARCH_ARM64: u16 = 12;
// MINIDUMP_SYSTEM_INFO::platform_id values
const OS_WINDOWS: u32 = 2;
const OS_LINUX: u32 = 0x8201;

fn symbolizer(code_file: &str, sym: &str) -> Symbolizer {
    let mut map = HashMap::new();
    map.insert(code_file.to_string(), sym.to_string());
    Symbolizer::new(string_symbol_supplier(map))
}

/// Renders the state in all three formats; this is what the property promises is always possible.
fn render_all(state: &ProcessState) {
    let mut out = Vec::new();
    state.print(&mut out).expect("full text");
    let mut out = Vec::new();
    state.print_brief(&mut out).expect("brief text");
    let mut out = Vec::new();
    state.print_json(&mut out, false).expect("json");
    let mut out = Vec::new();
    state.print_json(&mut out, true).expect("pretty json");
}

/// A symbol provider that forwards to a real `Symbolizer` but refuses to unwind by CFI after
/// `limit` requests. It only exists so that a walk that would otherwise never end can be observed
/// by a test that does end; it can only make walks *shorter*.
struct CappedProvider {
    inner: Symbolizer,
    walks: AtomicUsize,
    limit: usize,
}

#[async_trait::async_trait]
impl SymbolProvider for CappedProvider {
    async fn fill_symbol(
        &self,
        module: &(dyn minidump::Module + Sync),
        frame: &mut (dyn FrameSymbolizer + Send),
    ) -> Result<(), FillSymbolError> {
        self.inner.fill_symbol(module, frame).await
    }
    async fn walk_frame(
        &self,
        module: &(dyn minidump::Module + Sync),
        walker: &mut (dyn FrameWalker + Send),
    ) -> Option<()> {
        if self.walks.fetch_add(1, Ordering::SeqCst) >= self.limit {
            return None;
        }
        self.inner.walk_frame(module, walker).await
    }
    async fn get_file_path(
        &self,
        module: &(dyn minidump::Module + Sync),
        file_kind: FileKind,
    ) -> Result<PathBuf, FileError> {
        self.inner.get_file_path(module, file_kind).await
    }
    fn stats(&self) -> HashMap<String, SymbolStats> {
        self.inner.stats()
    }
}

const STACK_BYTES: usize = 16;

/// Walks one thread whose stack memory is `STACK_BYTES` bytes (at 0x80000000), with `sym` served
/// for the only module (0x400000..0x410000), and returns the number of frames. (CFI unwinding is
/// cut off after 10 000 steps so that the test ends.)
async fn frames_walked(arch: u16, os: u32, context: Section, sym: &str) -> usize {
    let name = DumpString::new("/test/mod", LE);
    let module = Module::new(LE, 0x40_0000, 0x1_0000, &name, 0, 0, None);
    let stack = Memory::with_section(
        Section::with_endian(LE).append_repeated(0, STACK_BYTES),
        0x8000_0000,
    );
    let thread = Thread::new(LE, 1, &stack, &context);
    let system_info = SystemInfo::new(LE)
        .set_processor_architecture(arch)
        .set_platform_id(os);
    let dump = SynthMinidump::with_endian(LE)
        .add_module(module)
        .add(name)
        .add_thread(thread)
        .add_system_info(system_info)
        .add(context)
        .add_memory(stack);
    let bytes = dump.finish().unwrap();
    let dump = Minidump::read(bytes).unwrap();

    let provider = CappedProvider {
        inner: symbolizer("/test/mod", sym),
        walks: AtomicUsize::new(0),
        limit: 10_000,
    };
    let state = minidump_processor::process_minidump_with_options(
        &dump,
        &provider,
        ProcessorOptions::stable_basic(),
    )
    .await
    .unwrap();
    render_all(&state);
    state.threads[0].frames.len()
}

/// An unwind rule that never reads memory (`.cfa: $rsp 1 +`, `.ra: <constant inside the module>`)
/// makes every frame "unwind" to the same function with the stack pointer one byte further.
/// Nothing checks that the new stack pointer is still inside the thread's stack memory and
/// `walk_stack` has no frame limit, so the walk goes on until the stack pointer wraps around
/// (2^64 frames on amd64/arm64, 2^32 on x86) - each frame costing a few kB of memory.
///
/// The same holds for every CPU with a CFI unwinder (STACK CFI: x86, amd64, arm, arm64, mips)
/// and for x86 STACK WIN program strings.
#[tokio::test]
async fn cfi_without_memory_access_walks_past_the_stack() {
    // The return address 0x401010 = 4198416 lies in the module, inside the same unwind record;
    // the stack pointer starts at the first byte of the 16 bytes of stack memory.
    let amd64 = frames_walked(
        ARCH_AMD64,
        OS_LINUX,
        amd64_context(LE, 0x40_1000, 0x8000_0000),
        "MODULE Linux x86_64 000000000000000000000000000000000 mod\n\
         STACK CFI INIT 0 10000 .cfa: $rsp 1 + .ra: 4198416\n",
    )
    .await;
    let arm64 = frames_walked(
        ARCH_ARM64,
        OS_LINUX,
        arm64_context(LE, 0x40_1000, 0x8000_0000),
        "MODULE Linux arm64 000000000000000000000000000000000 mod\n\
         STACK CFI INIT 0 10000 .cfa: sp 1 + .ra: 4198416\n",
    )
    .await;
    let x86_win = frames_walked(
        ARCH_X86,
        OS_WINDOWS,
        x86_context(LE, 0x40_1000, 0x8000_0000),
        "MODULE windows x86 000000000000000000000000000000000 mod.pdb\n\
         STACK WIN 4 0 10000 0 0 0 0 0 0 1 $eip 4198416 = $esp $esp 1 + =\n",
    )
    .await;
    let too_long: Vec<String> = [
        ("amd64 STACK CFI", amd64),
        ("arm64 STACK CFI", arm64),
        ("x86 STACK WIN", x86_win),
    ]
    .iter()
    .filter(|(_, frames)| *frames > STACK_BYTES + 2)
    .map(|(what, frames)| format!("{what}: {frames} frames"))
    .collect();
    assert!(
        too_long.is_empty(),
        "a thread with {STACK_BYTES} bytes of stack memory was walked for more than \
         {STACK_BYTES} + 2 frames: {too_long:?}"
    );
}
