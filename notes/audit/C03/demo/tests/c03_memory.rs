//! Confirming tests for audit C03, memory part: "... within a time and memory budget tied to the
//! input size".
//!
//! Each test processes an input of size n and an input of size 2n (every part of the input
//! doubled) and measures the peak heap use with a counting allocator. A budget that is tied to
//! the input size lets the peak double (plus noise); the tests allow a factor of 3 and FAIL on
//! the unmodified tree because the peak (nearly) quadruples: memory grows with the *product* of
//! two parts of the input. Scaled up, a dump of a few MB asks for tens of GB.
//!
//! Everything goes through the public API (`Minidump::read`, `process_minidump_with_options`).

use std::alloc::{GlobalAlloc, Layout, System};
use std::collections::HashMap;
use std::sync::atomic::{AtomicUsize, Ordering};
use std::sync::Mutex;

use minidump::Minidump;
use minidump_processor::{ProcessState, ProcessorOptions};
use minidump_synth::*;
use minidump_unwind::{string_symbol_supplier, Symbolizer};
use test_assembler::*;

const LE: Endian = Endian::Little;
const ARCH_X86: u16 = 0;
const OS_WINDOWS: u32 = 2;

struct Counting;
static CURRENT: AtomicUsize = AtomicUsize::new(0);
static PEAK: AtomicUsize = AtomicUsize::new(0);

unsafe impl GlobalAlloc for Counting {
    unsafe fn alloc(&self, layout: Layout) -> *mut u8 {
        let p = System.alloc(layout);
        if !p.is_null() {
            let now = CURRENT.fetch_add(layout.size(), Ordering::SeqCst) + layout.size();
            PEAK.fetch_max(now, Ordering::SeqCst);
        }
        p
    }
    unsafe fn dealloc(&self, ptr: *mut u8, layout: Layout) {
        CURRENT.fetch_sub(layout.size(), Ordering::SeqCst);
        System.dealloc(ptr, layout)
    }
    unsafe fn realloc(&self, ptr: *mut u8, layout: Layout, new_size: usize) -> *mut u8 {
        let p = System.realloc(ptr, layout, new_size);
        if !p.is_null() {
            if new_size >= layout.size() {
                let d = new_size - layout.size();
                let now = CURRENT.fetch_add(d, Ordering::SeqCst) + d;
                PEAK.fetch_max(now, Ordering::SeqCst);
            } else {
                CURRENT.fetch_sub(layout.size() - new_size, Ordering::SeqCst);
            }
        }
        p
    }
}

#[global_allocator]
static ALLOC: Counting = Counting;

/// The tests of this file measure a process-wide counter, so they must not overlap.
static SERIAL: Mutex<()> = Mutex::new(());

struct Measured {
    input_bytes: usize,
    /// Peak heap use while processing, over what was in use before (the input itself included).
    peak_bytes: usize,
    frames: usize,
}

fn measure(dump_bytes: Vec<u8>, syms: HashMap<String, String>) -> (Measured, ProcessState) {
    let input_bytes = dump_bytes.len() + syms.values().map(|s| s.len()).sum::<usize>();
    let rt = tokio::runtime::Builder::new_current_thread()
        .build()
        .unwrap();
    let dump = Minidump::read(dump_bytes).unwrap();
    let provider = Symbolizer::new(string_symbol_supplier(syms));
    let before = CURRENT.load(Ordering::SeqCst);
    PEAK.store(before, Ordering::SeqCst);
    let state = rt
        .block_on(minidump_processor::process_minidump_with_options(
            &dump,
            &provider,
            ProcessorOptions::stable_basic(),
        ))
        .unwrap();
    let peak_bytes = PEAK.load(Ordering::SeqCst) - before;
    let frames = state.threads.iter().map(|t| t.frames.len()).sum();
    (
        Measured {
            input_bytes,
            peak_bytes,
            frames,
        },
        state,
    )
}

fn assert_linear(what: &str, small: &Measured, big: &Measured) {
    eprintln!(
        "{what}: input {} -> {} bytes, frames {} -> {}, peak heap {} -> {} bytes",
        small.input_bytes,
        big.input_bytes,
        small.frames,
        big.frames,
        small.peak_bytes,
        big.peak_bytes
    );
    // The second input is about twice the first one.
    assert!(big.input_bytes <= small.input_bytes * 2 + 4096);
    assert!(
        big.peak_bytes <= small.peak_bytes * 3,
        "{what}: the input grew from {} to {} bytes (x{:.2}) but the peak heap use grew from {} to {} \
         bytes (x{:.2}): memory is not tied to the input size",
        small.input_bytes,
        big.input_bytes,
        big.input_bytes as f64 / small.input_bytes as f64,
        small.peak_bytes,
        big.peak_bytes,
        big.peak_bytes as f64 / small.peak_bytes as f64,
    );
}

const STACK: u32 = 0x1000_0000;
const MODULE: u64 = 0x40_0000;
const UNLOADED: u32 = 0x5000_0000;

/// x86 / Windows dump: a stack that is one long, well-formed %ebp chain (8 bytes per frame:
/// saved %ebp, return address) of `frames` frames that all return to `return_address`, one loaded
/// module called `module_name` at `MODULE` and `unloaded` unloaded modules that all cover
/// `UNLOADED + 0x8000`, each at a base address of its own.
fn ebp_chain_dump(
    frames: usize,
    return_address: u32,
    module_name: &str,
    unloaded: usize,
) -> Vec<u8> {
    let name = DumpString::new(module_name, LE);
    let module = Module::new(LE, MODULE, 0x1_0000, &name, 0, 0, None);

    let mut section = Section::with_endian(LE);
    for i in 0..frames as u32 {
        // saved %ebp of the caller, return address
        section = section.D32(STACK + (i + 1) * 8).D32(return_address);
    }
    // the last saved %ebp points here: a null %ebp and return address, the walk ends
    section = section.D32(0).D32(0);
    let stack = Memory::with_section(section, STACK as u64);

    let context = x86_context_with_ebp(return_address, STACK, STACK);
    let thread = Thread::new(LE, 1, &stack, &context);
    let system_info = SystemInfo::new(LE)
        .set_processor_architecture(ARCH_X86)
        .set_platform_id(OS_WINDOWS);
    let mut dump = SynthMinidump::with_endian(LE)
        .add_module(module)
        .add(name)
        .add_thread(thread)
        .add_system_info(system_info)
        .add(context)
        .add_memory(stack);
    if unloaded > 0 {
        assert!(unloaded * 4 < 0x8000);
        let unloaded_name = DumpString::new("u.dll", LE);
        for i in 0..unloaded as u64 {
            dump = dump.add_unloaded_module(UnloadedModule::new(
                LE,
                UNLOADED as u64 + i * 4,
                0x1_0000,
                &unloaded_name,
                0,
                0,
            ));
        }
        dump = dump.add(unloaded_name);
    }
    dump.finish().unwrap()
}

/// `minidump_synth::x86_context` with a value for %ebp as well.
fn x86_context_with_ebp(eip: u32, esp: u32, ebp: u32) -> Section {
    use minidump::format as md;
    use scroll::ctx::SizeWith;
    Section::with_endian(LE)
        .D32(0x1003f) // context_flags: CONTEXT_X86_ALL
        .append_repeated(0, 4 * 6) // dr0,1,2,3,6,7
        .append_repeated(0, md::FLOATING_SAVE_AREA_X86::size_with(&scroll::LE)) // float_save
        .append_repeated(0, 4 * 10) // gs, fs, es, ds, edi, esi, ebx, edx, ecx, eax
        .D32(ebp)
        .D32(eip)
        .D32(0) // cs
        .D32(0) // eflags
        .D32(esp)
        .D32(0) // ss
        .append_repeated(0, 512) // extended_registers
}

/// Every frame that lies in a module gets its own deep copy of the module record
/// (`frame.module = Some(module.clone())` in `fill_source_line_info`): name, CodeView record and
/// all. N frames in a module with an L byte name cost N*L bytes, although the dump only has
/// 8*N + 2*L bytes. No symbols are involved.
#[test]
fn memory_grows_with_frames_times_module_record_size() {
    let _guard = SERIAL.lock().unwrap_or_else(|e| e.into_inner());
    // The directory part keeps the (long) name out of the rendered output (which prints the
    // basename); only the per-frame copy of the module record is of interest here.
    let name = |len: usize| format!("{}/m", "d".repeat(len));
    let ret = MODULE as u32 + 0x100;
    let (small, _) = measure(ebp_chain_dump(500, ret, &name(20_000), 0), HashMap::new());
    let (big, _) = measure(ebp_chain_dump(1000, ret, &name(40_000), 0), HashMap::new());
    assert_eq!(small.frames, 501);
    assert_eq!(big.frames, 1001);
    assert_linear("frames x module name", &small, &big);
}

/// A frame outside every loaded module records *every* unloaded module that covers its address
/// (`frame.unloaded_modules`, filled in `into_process_state`), and every frame does so again:
/// N frames under U overlapping unloaded modules cost N*U entries (and N*U offsets in the rendered
/// output), although the dump only has 8*N + 24*U bytes. No symbols are involved.
#[test]
fn memory_grows_with_frames_times_unloaded_modules() {
    let _guard = SERIAL.lock().unwrap_or_else(|e| e.into_inner());
    let ret = UNLOADED + 0x8000;
    let (small, state) = measure(ebp_chain_dump(500, ret, "m", 1000), HashMap::new());
    assert_eq!(small.frames, 501);
    assert_eq!(
        state.threads[0].frames[1].unloaded_modules["u.dll"].len(),
        1000
    );
    drop(state);
    let (big, state) = measure(ebp_chain_dump(1000, ret, "m", 2000), HashMap::new());
    assert_eq!(big.frames, 1001);
    drop(state);
    assert_linear("frames x unloaded modules", &small, &big);
}

/// A frame gets one `InlineFrame` (two owned strings) per INLINE nesting level that covers its
/// address (`SymbolFile::fill_symbol`), and every frame at that address gets them again:
/// N frames in a function with K nested INLINE records cost N*K inline frames, although the
/// inputs only have 8*N + 25*K bytes.
#[test]
fn memory_grows_with_frames_times_inline_depth() {
    let _guard = SERIAL.lock().unwrap_or_else(|e| e.into_inner());
    fn symbols(depth: usize) -> HashMap<String, String> {
        let mut sym = String::from(
            "MODULE windows x86 000000000000000000000000000000000 m.pdb\n\
             FILE 0 a.c\n\
             INLINE_ORIGIN 0 f\n\
             FUNC 0 10000 0 outer\n",
        );
        for level in 0..depth {
            sym.push_str(&format!("INLINE {level} 1 0 0 0 10000\n"));
        }
        sym.push_str("0 10000 1 0\n");
        let mut map = HashMap::new();
        map.insert("m".to_string(), sym);
        map
    }
    let ret = MODULE as u32 + 0x100;
    let (small, state) = measure(ebp_chain_dump(500, ret, "m", 0), symbols(500));
    assert_eq!(small.frames, 501);
    assert_eq!(state.threads[0].frames[1].inlines.len(), 500);
    drop(state);
    let (big, state) = measure(ebp_chain_dump(1000, ret, "m", 0), symbols(1000));
    assert_eq!(big.frames, 1001);
    drop(state);
    assert_linear("frames x inline depth", &small, &big);
}
