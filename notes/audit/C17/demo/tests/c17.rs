use breakpad_symbols::*;
use debugid::{CodeId, DebugId};
use std::path::{Component, Path, PathBuf};
use std::str::FromStr;

fn rel_ok(rel: &str) -> Result<(), String> {
    if rel.is_empty() {
        return Err("empty".into());
    }
    if rel.starts_with('/') || rel.starts_with('\\') {
        return Err("starts with separator".into());
    }
    let b = rel.as_bytes();
    if b.len() >= 2 && b[0].is_ascii_alphabetic() && b[1] == b':' {
        return Err("drive prefix".into());
    }
    for comp in rel.split(['/', '\\']) {
        if comp == ".." {
            return Err("dotdot component".into());
        }
    }
    // containment after a lexical join, posix flavour
    let root = Path::new("/sandbox/root");
    let joined = root.join(rel);
    let mut out = PathBuf::new();
    for c in joined.components() {
        match c {
            Component::ParentDir => {
                out.pop();
            }
            Component::CurDir => {}
            other => out.push(other.as_os_str()),
        }
    }
    if !out.starts_with(root) || out == root {
        return Err(format!("joined path {out:?} not strictly inside root"));
    }
    Ok(())
}

fn names(alphabet: &[&str], max_len: usize) -> Vec<String> {
    let mut all = vec![String::new()];
    let mut frontier = vec![String::new()];
    for _ in 0..max_len {
        let mut next = Vec::new();
        for s in &frontier {
            for a in alphabet {
                next.push(format!("{s}{a}"));
            }
        }
        all.extend(next.iter().cloned());
        frontier = next;
    }
    all
}

#[test]
fn enumerate_lookup_paths() {
    let alphabet = ["/", "\\", ".", ":", "C", "a", "\0", " ", "\t", "%2e", "é", "?", "|"];
    let all = names(&alphabet, 5);
    let debug_id = DebugId::from_str("abcd1234-abcd-1234-abcd-abcd12345678-a").unwrap();
    let code_ids = [CodeId::new("".into()), CodeId::new("5A5B5C5D1000".into()), CodeId::new("../..".into())];
    let mut bad = Vec::new();
    let mut n = 0usize;
    for name in &all {
        for code_id in &code_ids {
            for swap in [false, true] {
                let other = "ok.pdb".to_string();
                let (debug_file, code_file) = if swap { (other.clone(), name.clone()) } else { (name.clone(), other.clone()) };
                let m = SimpleModule::from_basic_info(
                    Some(debug_file.clone()),
                    Some(debug_id),
                    Some(code_file.clone()),
                    Some(code_id.clone()),
                );
                let mut rels: Vec<(String, String)> = Vec::new();
                for kind in [FileKind::BreakpadSym, FileKind::Binary, FileKind::ExtraDebugInfo] {
                    if let Some(l) = lookup(&m, kind) {
                        rels.push((format!("{kind:?}.cache_rel"), l.cache_rel.clone()));
                        rels.push((format!("{kind:?}.server_rel"), l.server_rel.clone()));
                        let moz = moz_lookup(l);
                        rels.push((format!("{kind:?}.moz.cache_rel"), moz.cache_rel.clone()));
                        rels.push((format!("{kind:?}.moz.server_rel"), moz.server_rel.clone()));
                    }
                }
                if let Some(p) = code_info_breakpad_sym_lookup(&m) {
                    rels.push(("code_info".into(), p));
                }
                for (what, rel) in rels {
                    n += 1;
                    if let Err(e) = rel_ok(&rel) {
                        if bad.len() < 40 {
                            bad.push(format!("{what} debug_file={debug_file:?} code_file={code_file:?} -> {rel:?}: {e}"));
                        }
                    }
                }
            }
        }
    }
    eprintln!("checked {n} relative paths");
    assert!(bad.is_empty(), "{}", bad.join("\n"));
}
