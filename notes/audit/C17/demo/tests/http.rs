use breakpad_symbols::*;
use debugid::{CodeId, DebugId};
use std::io::{Read, Write};
use std::net::TcpListener;
use std::path::Path;
use std::str::FromStr;
use std::sync::{Arc, Mutex};
use std::time::Duration;

fn pct_decode(s: &str) -> Vec<u8> {
    let b = s.as_bytes();
    let mut out = Vec::new();
    let mut i = 0;
    while i < b.len() {
        if b[i] == b'%' && i + 2 < b.len() && s.is_char_boundary(i + 3) {
            if let Ok(v) = u8::from_str_radix(&s[i + 1..i + 3], 16) {
                out.push(v);
                i += 3;
                continue;
            }
        }
        out.push(b[i]);
        i += 1;
    }
    out
}

fn cab_with(names: &[String]) -> Vec<u8> {
    let mut b = cab::CabinetBuilder::new();
    let folder = b.add_folder(cab::CompressionType::None);
    for n in names {
        folder.add_file(n.clone());
    }
    let mut w = b.build(std::io::Cursor::new(Vec::new())).unwrap();
    while let Some(mut fw) = w.next_file().unwrap() {
        fw.write_all(b"cab payload").unwrap();
    }
    w.finish().unwrap().into_inner()
}

/// mode 0: 200 for everything; mode 1: 404 unless the target ends in '_' (then a CAB)
fn serve(mode: u8, cab: Vec<u8>) -> (u16, Arc<Mutex<Vec<String>>>) {
    let listener = TcpListener::bind("127.0.0.1:0").unwrap();
    let port = listener.local_addr().unwrap().port();
    let log = Arc::new(Mutex::new(Vec::new()));
    let log2 = log.clone();
    std::thread::spawn(move || {
        for stream in listener.incoming() {
            let Ok(mut stream) = stream else { continue };
            let log = log2.clone();
            let cab = cab.clone();
            std::thread::spawn(move || {
                let mut buf = Vec::new();
                let mut tmp = [0u8; 1024];
                loop {
                    let Ok(n) = stream.read(&mut tmp) else { return };
                    if n == 0 {
                        return;
                    }
                    buf.extend_from_slice(&tmp[..n]);
                    while let Some(pos) = buf.windows(4).position(|w| w == b"\r\n\r\n") {
                        let head = String::from_utf8_lossy(&buf[..pos]).to_string();
                        buf.drain(..pos + 4);
                        let line = head.lines().next().unwrap_or("").to_string();
                        let target = line.split(' ').nth(1).unwrap_or("").to_string();
                        log.lock().unwrap().push(target.clone());
                        let path = target.split('?').next().unwrap().to_string();
                        let (status, body): (&str, Vec<u8>) = if mode == 0 {
                            ("200 OK", b"MODULE Linux x86 ABCD1234ABCD1234ABCDABCD12345678a name\nFILE 0 x.c\n".to_vec())
                        } else if path.ends_with('_') {
                            ("200 OK", cab.clone())
                        } else {
                            ("404 Not Found", Vec::new())
                        };
                        let resp = format!(
                            "HTTP/1.1 {status}\r\nContent-Length: {}\r\nConnection: keep-alive\r\n\r\n",
                            body.len()
                        );
                        if stream.write_all(resp.as_bytes()).is_err() {
                            return;
                        }
                        if stream.write_all(&body).is_err() {
                            return;
                        }
                    }
                }
            });
        }
    });
    (port, log)
}

fn nasty_names() -> Vec<String> {
    let mut v: Vec<String> = [
        "", ".", "..", "/", "\\", "a/..", "a\\..", "../", "..\\", "C:..", "C:", "c:\\..", "C:D:..", "C:/..",
        "%2e%2e", ".%2E", "%2E.", "%2e", ".\t.", "..\n", "\r..", "\t", "http:evil.example", "//evil.example/x",
        "\\\\srv\\share\\..", "\\\\srv\\share", "\\\\?\\C:", "?x", "#", "a?b#c", "a\0b", "\0", "..%2f", "%2e%2e%2f..",
        "..;", " ..", ".. ", "...", "\u{FF0E}\u{FF0E}", "\u{2024}\u{2024}", "é", "C|", "c|..", "@evil", "a@b:c",
        ".\u{00AD}.", ".\u{200B}.", "..\u{0}", "x.pdb", "C:x.dll", "_", "a",
    ]
    .iter()
    .map(|s| s.to_string())
    .collect();
    v.push("A".repeat(300));
    v
}

fn list_all(root: &Path, out: &mut Vec<std::path::PathBuf>) {
    for e in std::fs::read_dir(root).unwrap() {
        let e = e.unwrap();
        let p = e.path();
        out.push(p.clone());
        if e.file_type().unwrap().is_dir() {
            list_all(&p, out);
        }
    }
}

fn check_targets(log: &[String]) -> Vec<String> {
    let mut bad = Vec::new();
    for t in log {
        let path = t.split('?').next().unwrap();
        let raw_segments: Vec<&str> = path.split('/').collect();
        if raw_segments.len() != 5 || raw_segments[0] != "" || raw_segments[1] != "root" {
            bad.push(format!("request target {t:?}: not /root/<a>/<b>/<c>"));
            continue;
        }
        for seg in &raw_segments[2..] {
            let dec = pct_decode(seg);
            if dec == b"." || dec == b".." || dec.contains(&b'/') || dec.contains(&b'\\') {
                bad.push(format!("request target {t:?}: segment {seg:?} decodes to a dot segment or has separators"));
            }
            let lower = seg.to_ascii_lowercase();
            if matches!(&lower[..], "%2e" | "%2e%2e" | ".%2e" | "%2e.") {
                bad.push(format!("request target {t:?}: URL-standard dot segment {seg:?}"));
            }
        }
    }
    bad
}

async fn run_mode(mode: u8) {
    let names = nasty_names();
    let cab_names: Vec<String> = names
        .iter()
        .filter(|n| !n.is_empty() && !n.contains(['\0', '/', '\\']) && n.len() < 200)
        .cloned()
        .collect();
    let cab = if mode == 1 { cab_with(&cab_names) } else { Vec::new() };
    let (port, log) = serve(mode, cab);
    let outer = tempfile::tempdir().unwrap();
    let sandbox = outer.path().join("a").join("b");
    let cache = sandbox.join("cache");
    let tmp = sandbox.join("tmp");
    std::fs::create_dir_all(&cache).unwrap();
    std::fs::create_dir_all(&tmp).unwrap();
    let debug_id = DebugId::from_str("abcd1234-abcd-1234-abcd-abcd12345678-a").unwrap();
    let mut hits = 0;
    for name in &names {
        for swap in [false, true] {
            for with_debug in [true, false] {
                let supplier = HttpSymbolSupplier::new(
                    vec![format!("http://127.0.0.1:{port}/root")],
                    cache.clone(),
                    tmp.clone(),
                    vec![],
                    Duration::from_secs(5),
                );
                let (debug_file, code_file) = if swap {
                    ("ok.pdb".to_string(), name.clone())
                } else {
                    (name.clone(), "ok.dll".to_string())
                };
                let m = SimpleModule::from_basic_info(
                    if with_debug { Some(debug_file) } else { None },
                    if with_debug { Some(debug_id) } else { None },
                    Some(code_file),
                    Some(CodeId::new("5A5B5C5D1000".into())),
                );
                if supplier.locate_symbols(&m).await.is_ok() {
                    hits += 1;
                }
                for kind in [FileKind::BreakpadSym, FileKind::Binary, FileKind::ExtraDebugInfo] {
                    if supplier.locate_file(&m, kind).await.is_ok() {
                        hits += 1;
                    }
                }
            }
        }
    }
    let log = log.lock().unwrap().clone();
    eprintln!("mode {mode}: {} requests, {hits} hits", log.len());
    assert!(log.len() > 50);
    assert!(hits > 10);
    let mut bad = check_targets(&log);
    // nothing was created outside cache/ and tmp/
    let mut all = Vec::new();
    list_all(outer.path(), &mut all);
    for p in &all {
        let ok = p == &outer.path().join("a")
            || p == &sandbox
            || p.starts_with(&cache)
            || p.starts_with(&tmp);
        if !ok {
            bad.push(format!("file system entry outside the cache: {p:?}"));
        }
        // and inside the cache everything is exactly leaf/id/leaf deep at most
        if p.starts_with(&cache) {
            let rel = p.strip_prefix(&cache).unwrap();
            if rel.components().count() > 3 {
                bad.push(format!("cache entry deeper than three components: {p:?}"));
            }
        }
    }
    assert!(bad.is_empty(), "{}", bad.join("\n"));
}

#[tokio::test(flavor = "multi_thread")]
async fn http_supplier_all_ok_server() {
    run_mode(0).await;
}

#[tokio::test(flavor = "multi_thread")]
async fn http_supplier_cab_server() {
    run_mode(1).await;
}
