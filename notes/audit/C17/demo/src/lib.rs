// scratch crate for the C17 audit; see tests/
