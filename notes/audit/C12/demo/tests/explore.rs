//! Stateless exhaustive exploration of poll interleavings on one Symbolizer.
use async_trait::async_trait;
use breakpad_symbols::*;
use debugid::DebugId;
use std::future::Future;
use std::path::PathBuf;
use std::pin::Pin;
use std::str::FromStr;
use std::sync::atomic::{AtomicBool, Ordering};
use std::sync::{Arc, Mutex};
use std::task::{Context, Poll, Wake, Waker};

#[derive(Clone, Copy, Debug, PartialEq)]
pub enum Answer {
    Ok,
    NotFound,
    ParseError,
}

#[derive(Default)]
pub struct Shared {
    pub calls: Vec<u32>,            // per module index
    pub parked: Vec<Waker>,         // wakers of suspended supplier calls, fired by scheduler
}

pub struct MockSupplier {
    pub shared: Arc<Mutex<Shared>>,
    pub suspends: Vec<u32>,
    pub answers: Vec<Answer>,
    pub self_wake: bool,
}

struct Suspend {
    left: u32,
    shared: Arc<Mutex<Shared>>,
    self_wake: bool,
}
impl Future for Suspend {
    type Output = ();
    fn poll(mut self: Pin<&mut Self>, cx: &mut Context<'_>) -> Poll<()> {
        if self.left == 0 {
            return Poll::Ready(());
        }
        self.left -= 1;
        if self.self_wake {
            cx.waker().wake_by_ref();
        } else {
            self.shared.lock().unwrap().parked.push(cx.waker().clone());
        }
        Poll::Pending
    }
}

fn idx_of(module: &(dyn Module + Sync)) -> usize {
    let f = module.debug_file().unwrap();
    f.trim_start_matches('m').trim_end_matches(".pdb").parse().unwrap()
}

const SYM: &str = "MODULE Linux x86_64 ABCD1234ABCD1234ABCDABCD12345678a foo
FILE 1 foo.c
FUNC 1000 30 10 some func
1000 30 100 1
STACK CFI INIT 1000 30 .cfa: $rsp 8 + .ra: .cfa -8 + ^
";

#[async_trait]
impl SymbolSupplier for MockSupplier {
    async fn locate_symbols(
        &self,
        module: &(dyn Module + Sync),
    ) -> Result<LocateSymbolsResult, SymbolError> {
        let i = idx_of(module);
        self.shared.lock().unwrap().calls[i] += 1;
        Suspend { left: self.suspends[i], shared: self.shared.clone(), self_wake: self.self_wake }.await;
        match self.answers[i] {
            Answer::Ok => Ok(LocateSymbolsResult {
                symbols: SymbolFile::from_bytes(SYM.as_bytes()).unwrap(),
                extra_debug_info: None,
            }),
            Answer::NotFound => Err(SymbolError::NotFound),
            Answer::ParseError => Err(SymbolFile::from_bytes(b"garbage\n").unwrap_err()),
        }
    }
    async fn locate_file(
        &self,
        _module: &(dyn Module + Sync),
        _file_kind: FileKind,
    ) -> Result<PathBuf, FileError> {
        Err(FileError::NotFound)
    }
}

struct Walker {
    set_ra: Option<u64>,
    set_cfa: Option<u64>,
}
impl FrameWalker for Walker {
    fn get_instruction(&self) -> u64 { 0x1010 }
    fn has_grand_callee(&self) -> bool { false }
    fn get_grand_callee_parameter_size(&self) -> u32 { 0 }
    fn get_register_at_address(&self, address: u64) -> Option<u64> { Some(address ^ 0x5555) }
    fn get_callee_register(&self, name: &str) -> Option<u64> {
        if name == "rsp" { Some(0x8000) } else { None }
    }
    fn set_caller_register(&mut self, _name: &str, _val: u64) -> Option<()> { Some(()) }
    fn clear_caller_register(&mut self, _name: &str) {}
    fn set_cfa(&mut self, val: u64) -> Option<()> { self.set_cfa = Some(val); Some(()) }
    fn set_ra(&mut self, val: u64) -> Option<()> { self.set_ra = Some(val); Some(()) }
}

struct Flag(AtomicBool);
impl Wake for Flag {
    fn wake(self: Arc<Self>) { self.0.store(true, Ordering::SeqCst) }
    fn wake_by_ref(self: &Arc<Self>) { self.0.store(true, Ordering::SeqCst) }
}

#[derive(Clone, Copy, Debug, PartialEq)]
pub enum Kind { Fill, Walk }

#[derive(Clone, Debug)]
pub struct Config {
    pub tasks: Vec<Vec<(Kind, usize)>>, // per task: list of lookups (kind, module index)
    pub suspends: Vec<u32>,
    pub answers: Vec<Answer>,
    pub self_wake: bool,
    pub max_spurious: u32,
}

fn module(i: usize) -> SimpleModule {
    SimpleModule::new(
        &format!("m{i}.pdb"),
        DebugId::from_str("abcd1234-abcd-1234-abcd-abcd12345678-a").unwrap(),
    )
}

/// Runs one schedule. `choices` is consumed; at each decision point where more than one action is
/// available, the next choice is used (or 0 when exhausted, recording the branching factor).
/// Returns the branching factors seen along the way.
fn run_one(cfg: &Config, choices: &[usize]) -> Result<Vec<usize>, String> {
    let shared = Arc::new(Mutex::new(Shared { calls: vec![0; cfg.answers.len()], parked: vec![] }));
    let symbolizer = Symbolizer::new(MockSupplier {
        shared: shared.clone(),
        suspends: cfg.suspends.clone(),
        answers: cfg.answers.clone(),
        self_wake: cfg.self_wake,
    });
    let outcomes: Arc<Mutex<Vec<(usize, Kind, bool)>>> = Default::default();
    let symref = &symbolizer;
    let mut futs: Vec<Option<Pin<Box<dyn Future<Output = ()> + '_>>>> = vec![];
    for t in &cfg.tasks {
        let outcomes = outcomes.clone();
        let t = t.clone();
        futs.push(Some(Box::pin(async move {
            for (kind, m) in t {
                let md = module(m);
                let ok = match kind {
                    Kind::Fill => {
                        let mut f = SimpleFrame::with_instruction(0x1010);
                        let r = symref.fill_symbol(&md, &mut f).await;
                        if r.is_ok() { assert_eq!(f.function.as_deref(), Some("some func")); }
                        r.is_ok()
                    }
                    Kind::Walk => {
                        let mut w = Walker { set_ra: None, set_cfa: None };
                        let r = symref.walk_frame(&md, &mut w).await;
                        if r.is_some() { assert_eq!(w.set_cfa, Some(0x8008)); }
                        r.is_some()
                    }
                };
                outcomes.lock().unwrap().push((m, kind, ok));
            }
        })));
    }
    let flags: Vec<Arc<Flag>> = (0..futs.len()).map(|_| Arc::new(Flag(AtomicBool::new(true)))).collect();
    let wakers: Vec<Waker> = flags.iter().map(|f| Waker::from(f.clone())).collect();
    let mut branching = vec![];
    let mut ci = 0;
    let mut spurious = 0;
    let mut steps = 0;
    loop {
        steps += 1;
        if steps > 10_000 { return Err("livelock: more than 10000 steps".into()); }
        if futs.iter().all(|f| f.is_none()) { break; }
        // actions: Poll(i) for unfinished+woken; Spurious(i) for unfinished, not woken; Fire(j)
        let mut actions: Vec<(u8, usize)> = vec![];
        for (i, f) in futs.iter().enumerate() {
            if f.is_some() {
                if flags[i].0.load(Ordering::SeqCst) { actions.push((0, i)); }
                else if spurious < cfg.max_spurious { actions.push((1, i)); }
            }
        }
        let nparked = shared.lock().unwrap().parked.len();
        for j in 0..nparked { actions.push((2, j)); }
        let progress = actions.iter().any(|a| a.0 != 1);
        if !progress {
            return Err(format!(
                "deadlock / lost wake-up: tasks unfinished {:?}, nobody woken, no parked supplier; outcomes so far {:?}",
                futs.iter().map(|f| f.is_some()).collect::<Vec<_>>(), outcomes.lock().unwrap()
            ));
        }
        let pick = if actions.len() == 1 { 0 } else {
            let c = if ci < choices.len() { choices[ci] } else { 0 };
            ci += 1;
            branching.push(actions.len());
            c
        };
        let (k, i) = actions[pick];
        match k {
            0 | 1 => {
                if k == 1 { spurious += 1; }
                flags[i].0.store(false, Ordering::SeqCst);
                let mut cx = Context::from_waker(&wakers[i]);
                if futs[i].as_mut().unwrap().as_mut().poll(&mut cx).is_ready() {
                    futs[i] = None;
                }
            }
            _ => {
                let w = shared.lock().unwrap().parked.remove(i);
                w.wake();
            }
        }
    }
    // Checks
    let sh = shared.lock().unwrap();
    let mut asked = vec![false; cfg.answers.len()];
    for t in &cfg.tasks { for (_, m) in t { asked[*m] = true; } }
    for (m, a) in asked.iter().enumerate() {
        let want = if *a { 1 } else { 0 };
        if sh.calls[m] != want {
            return Err(format!("module {m}: supplier asked {} times, want {want}", sh.calls[m]));
        }
    }
    let total: u32 = cfg.tasks.iter().map(|t| t.len() as u32).sum();
    let out = outcomes.lock().unwrap();
    if out.len() as u32 != total { return Err("lost request".into()); }
    for (m, _k, ok) in out.iter() {
        let want = cfg.answers[*m] == Answer::Ok;
        if *ok != want { return Err(format!("module {m}: outcome {ok}, want {want}")); }
    }
    let ps = symbolizer.pending_stats();
    let n = asked.iter().filter(|a| **a).count() as u64;
    if ps.symbols_requested != n || ps.symbols_processed != n {
        return Err(format!("pending stats {ps:?}, want both {n}"));
    }
    let stats = symbolizer.stats();
    if stats.len() as u64 > n { return Err("too many stats".into()); }
    Ok(branching)
}

/// DFS over all choice sequences.
pub fn explore(cfg: &Config, limit: u64) -> Result<u64, String> {
    let mut choices: Vec<usize> = vec![];
    let mut n = 0u64;
    loop {
        let br = run_one(cfg, &choices).map_err(|e| format!("{e}\nconfig {cfg:?}\nchoices {choices:?}"))?;
        n += 1;
        if n >= limit { return Ok(n); }
        // extend choices with zeros to br.len()
        while choices.len() < br.len() { choices.push(0); }
        // increment like an odometer from the end
        let mut i = choices.len();
        loop {
            if i == 0 { return Ok(n); }
            i -= 1;
            if choices[i] + 1 < br[i] { choices[i] += 1; choices.truncate(i + 1); break; }
        }
    }
}

#[test]
fn exhaustive_small() {
    let mut total = 0;
    for self_wake in [false, true] {
        for answer in [Answer::Ok, Answer::NotFound, Answer::ParseError] {
            for suspends in 0..=3u32 {
                for ntasks in 2..=3usize {
                    for k in [Kind::Fill, Kind::Walk] {
                        let cfg = Config {
                            tasks: (0..ntasks).map(|t| vec![(if t == 0 { k } else { Kind::Fill }, 0)]).collect(),
                            suspends: vec![suspends],
                            answers: vec![answer],
                            self_wake,
                            max_spurious: 2,
                        };
                        total += explore(&cfg, 200_000).unwrap();
                    }
                }
            }
        }
    }
    eprintln!("explored {total} schedules");
}

#[test]
fn exhaustive_two_modules() {
    let mut total = 0;
    for self_wake in [false, true] {
        for (a0, a1) in [(Answer::Ok, Answer::NotFound), (Answer::ParseError, Answer::Ok), (Answer::NotFound, Answer::NotFound)] {
            for suspends in [vec![1, 0], vec![2, 1], vec![0, 3]] {
                let cfg = Config {
                    tasks: vec![
                        vec![(Kind::Fill, 0), (Kind::Walk, 1)],
                        vec![(Kind::Walk, 1), (Kind::Fill, 0)],
                        vec![(Kind::Fill, 0), (Kind::Fill, 0)],
                    ],
                    suspends,
                    answers: vec![a0, a1],
                    self_wake,
                    max_spurious: 1,
                };
                total += explore(&cfg, 300_000).unwrap();
            }
        }
    }
    eprintln!("explored {total} schedules");
}

struct Rng(u64);
impl Rng {
    fn next(&mut self) -> u64 {
        self.0 ^= self.0 << 13; self.0 ^= self.0 >> 7; self.0 ^= self.0 << 17; self.0
    }
    fn below(&mut self, n: u64) -> u64 { self.next() % n }
}

#[test]
fn random_larger() {
    let mut rng = Rng(0x9E3779B97F4A7C15);
    let answers_all = [Answer::Ok, Answer::NotFound, Answer::ParseError];
    for _ in 0..3000 {
        let nmod = 1 + rng.below(3) as usize;
        let ntasks = 2 + rng.below(3) as usize;
        let cfg = Config {
            tasks: (0..ntasks)
                .map(|_| {
                    (0..1 + rng.below(3))
                        .map(|_| (if rng.below(2) == 0 { Kind::Fill } else { Kind::Walk }, rng.below(nmod as u64) as usize))
                        .collect()
                })
                .collect(),
            suspends: (0..nmod).map(|_| rng.below(4) as u32).collect(),
            answers: (0..nmod).map(|_| answers_all[rng.below(3) as usize]).collect(),
            self_wake: rng.below(2) == 0,
            max_spurious: rng.below(6) as u32,
        };
        for _ in 0..20 {
            let choices: Vec<usize> = (0..200).map(|_| rng.below(1000) as usize).collect();
            // choices are taken modulo the branching factor inside run_one? no: clamp here
            run_one_mod(&cfg, &choices).unwrap();
        }
    }
}

fn run_one_mod(cfg: &Config, choices: &[usize]) -> Result<(), String> {
    // first discover branching along the path lazily: replay with clamped choices until stable
    let mut clamped: Vec<usize> = vec![];
    loop {
        let br = run_one(cfg, &clamped).map_err(|e| format!("{e}\nconfig {cfg:?}\nchoices {clamped:?}"))?;
        if br.len() <= clamped.len() { return Ok(()); }
        let i = clamped.len();
        clamped.push(choices[i % choices.len()] % br[i]);
    }
}

#[test]
fn real_join_all_and_threads() {
    use futures_util::future::join_all;
    let rt = tokio::runtime::Builder::new_multi_thread().worker_threads(4).enable_all().build().unwrap();
    for round in 0..200u32 {
        let shared = Arc::new(Mutex::new(Shared { calls: vec![0; 3], parked: vec![] }));
        let symbolizer = Arc::new(Symbolizer::new(MockSupplier {
            shared: shared.clone(),
            suspends: vec![round % 4, (round / 4) % 4, 3],
            answers: vec![Answer::Ok, Answer::NotFound, Answer::ParseError],
            self_wake: true,
        }));
        rt.block_on(async {
            let mut handles = vec![];
            for t in 0..4usize {
                let s = symbolizer.clone();
                handles.push(tokio::spawn(async move {
                    let lookups = (0..3usize).map(|l| {
                        let s = s.clone();
                        async move {
                            let m = (t + l) % 3;
                            let md = module(m);
                            let mut f = SimpleFrame::with_instruction(0x1010);
                            let ok = s.fill_symbol(&md, &mut f).await.is_ok();
                            assert_eq!(ok, m == 0);
                            let mut w = Walker { set_ra: None, set_cfa: None };
                            assert_eq!(s.walk_frame(&md, &mut w).await.is_some(), m == 0);
                        }
                    });
                    join_all(lookups).await;
                }));
            }
            for h in handles { h.await.unwrap(); }
        });
        assert_eq!(shared.lock().unwrap().calls, vec![1, 1, 1]);
        let ps = symbolizer.pending_stats();
        assert_eq!((ps.symbols_requested, ps.symbols_processed), (3, 3));
    }
}
