//! Sanity check of the same property through HttpSymbolSupplier against a loopback server.
use breakpad_symbols::*;
use debugid::{CodeId, DebugId};
use std::str::FromStr;
use std::sync::{Arc, Mutex};
use std::time::Duration;
use tokio::io::{AsyncReadExt, AsyncWriteExt};

const SYM: &str = "MODULE Linux x86_64 ABCD1234ABCD1234ABCDABCD12345678a foo.so
FILE 1 foo.c
FUNC 1000 30 10 some func
1000 30 100 1
";

async fn serve(log: Arc<Mutex<Vec<String>>>) -> u16 {
    let l = tokio::net::TcpListener::bind("127.0.0.1:0").await.unwrap();
    let port = l.local_addr().unwrap().port();
    tokio::spawn(async move {
        loop {
            let (mut s, _) = l.accept().await.unwrap();
            let log = log.clone();
            tokio::spawn(async move {
                let mut buf = vec![0u8; 8192];
                let mut n = 0;
                loop {
                    let r = s.read(&mut buf[n..]).await.unwrap();
                    if r == 0 { return; }
                    n += r;
                    if buf[..n].windows(4).any(|w| w == b"\r\n\r\n") { break; }
                }
                let req = String::from_utf8_lossy(&buf[..n]).to_string();
                let path = req.split_whitespace().nth(1).unwrap().to_string();
                log.lock().unwrap().push(path.clone());
                tokio::time::sleep(Duration::from_millis(50)).await;
                let (status, body) = if path.starts_with("/foo.so/ABCD1234ABCD1234ABCDABCD12345678a/foo.so.sym") {
                    ("200 OK", SYM.to_string())
                } else if path.starts_with("/foo.so/0123456789abcdef/foo.so") {
                    ("200 OK", "BINARY".to_string())
                } else {
                    ("404 Not Found", String::new())
                };
                let resp = format!("HTTP/1.1 {status}\r\nContent-Length: {}\r\nConnection: close\r\n\r\n{body}", body.len());
                s.write_all(resp.as_bytes()).await.unwrap();
                let _ = s.shutdown().await;
            });
        }
    });
    port
}

fn module(name: &str) -> SimpleModule {
    SimpleModule::from_basic_info(
        Some(name.to_string()),
        Some(DebugId::from_str("abcd1234-abcd-1234-abcd-abcd12345678-a").unwrap()),
        Some(format!("/usr/lib/{name}")),
        Some(CodeId::from_str("0123456789abcdef").unwrap()),
    )
}

#[tokio::test(flavor = "multi_thread", worker_threads = 4)]
async fn http_concurrent_lookups_ask_the_server_once() {
    let log = Arc::new(Mutex::new(vec![]));
    let port = serve(log.clone()).await;
    let t = tempfile::tempdir().unwrap();
    let cache = t.path().join("cache");
    let tmp = t.path().join("tmp");
    std::fs::create_dir_all(&cache).unwrap();
    std::fs::create_dir_all(&tmp).unwrap();
    let supplier = HttpSymbolSupplier::new(
        vec![format!("http://127.0.0.1:{port}/")], cache, tmp, vec![], Duration::from_secs(10));
    let s = Arc::new(Symbolizer::new(supplier));
    let mut hs = vec![];
    for i in 0..4 {
        let s = s.clone();
        hs.push(tokio::spawn(async move {
            let good = module("foo.so");
            let bad = module("bar.so");
            let mut f = SimpleFrame::with_instruction(0x1010);
            let a = s.fill_symbol(&good, &mut f).await.is_ok();
            let b = s.fill_symbol(&bad, &mut f).await.is_ok();
            let c = s.get_file_path(&good, FileKind::Binary).await.is_ok();
            let d = s.get_file_path(&bad, FileKind::Binary).await.is_ok();
            let _ = i;
            (a, b, c, d)
        }));
    }
    for h in hs {
        assert_eq!(h.await.unwrap(), (true, false, true, false));
    }
    let log = log.lock().unwrap().clone();
    eprintln!("{log:#?}");
    let count = |p: &str| log.iter().filter(|l| l.starts_with(p)).count();
    assert_eq!(count("/foo.so/ABCD1234ABCD1234ABCDABCD12345678a/foo.so.sym"), 1);
    assert_eq!(count("/bar.so/ABCD1234ABCD1234ABCDABCD12345678a/bar.so.sym"), 1);
    assert_eq!(count("/foo.so/0123456789abcdef/foo.so"), 1);
    assert_eq!(count("/bar.so/0123456789abcdef/bar.so"), 1);
    let ps = s.pending_stats();
    assert_eq!((ps.symbols_requested, ps.symbols_processed), (2, 2));
}
