// scratch crate for the C12 audit; tests live under tests/
