// scratch crate for C14 audit
