//! Confirming tests for property C14 ("the process state is a faithful index of the dump").
//! Every test here asserts what the property demands and FAILS on the unmodified tree.

use minidump::{CrashReason, Minidump};
use minidump_common::errors as err;
use minidump_common::format as md;
use minidump_processor::ProcessState;
use minidump_synth::*;
use minidump_unwind::{simple_symbol_supplier, CallStackInfo, Symbolizer};
use test_assembler::{Endian, Section};

const LE: Endian = Endian::Little;

async fn process(bytes: Vec<u8>) -> ProcessState {
    let dump = Minidump::read(bytes).unwrap();
    minidump_processor::process_minidump(&dump, &Symbolizer::new(simple_symbol_supplier(vec![])))
        .await
        .unwrap()
}

/// A MINIDUMP_BREAKPAD_INFO stream.
fn breakpad_info(validity: u32, dump_tid: u32, req_tid: u32) -> SimpleStream {
    SimpleStream {
        stream_type: md::MINIDUMP_STREAM_TYPE::BreakpadInfoStream as u32,
        section: Section::with_endian(LE)
            .D32(validity)
            .D32(dump_tid)
            .D32(req_tid),
    }
}

fn sysinfo(arch: md::ProcessorArchitecture, plat: md::PlatformId) -> SystemInfo {
    SystemInfo::new(LE)
        .set_processor_architecture(arch as u16)
        .set_platform_id(plat as u32)
}

fn stack_at(addr: u64) -> Memory {
    Memory::with_section(Section::with_endian(LE).append_repeated(0, 16), addr)
}

/// Thread list [1 "main", 2 "writer"], thread-names stream names both, Breakpad info says thread 2
/// wrote the dump. The call stack of thread 2 must still carry the thread's name.
#[tokio::test]
async fn dump_writer_thread_loses_its_name() {
    let ctx1 = x86_context(LE, 0x1000, 0x2000);
    let ctx2 = x86_context(LE, 0x1100, 0x3000);
    let stack1 = stack_at(0x2000);
    let stack2 = stack_at(0x3000);
    let t1 = Thread::new(LE, 1, &stack1, &ctx1);
    let t2 = Thread::new(LE, 2, &stack2, &ctx2);
    let n1 = DumpString::new("main", LE);
    let n2 = DumpString::new("writer", LE);
    let tn1 = ThreadName::new(LE, 1, Some(&n1));
    let tn2 = ThreadName::new(LE, 2, Some(&n2));
    let dump = SynthMinidump::with_endian(LE)
        .add(ctx1)
        .add(ctx2)
        .add_memory(stack1)
        .add_memory(stack2)
        .add_thread(t1)
        .add_thread(t2)
        .add(n1)
        .add(n2)
        .add_thread_name(tn1)
        .add_thread_name(tn2)
        // validity = dump thread id | requesting thread id
        .add_stream(breakpad_info(3, 2, 1))
        .add_system_info(sysinfo(
            md::ProcessorArchitecture::PROCESSOR_ARCHITECTURE_INTEL,
            md::PlatformId::VER_PLATFORM_WIN32_NT,
        ));
    let state = process(dump.finish().unwrap()).await;

    assert_eq!(state.threads.len(), 2);
    assert_eq!(state.requesting_thread, Some(0));
    assert_eq!(state.threads[0].thread_id, 1);
    assert_eq!(state.threads[0].thread_name.as_deref(), Some("main"));
    assert_eq!(state.threads[1].thread_id, 2);
    assert_eq!(state.threads[1].info, CallStackInfo::DumpThreadSkipped);
    // Same ids *and names* as the thread list / thread names streams.
    assert_eq!(state.threads[1].thread_name.as_deref(), Some("writer"));
}

/// A misc-info stream that carries process times but not the process id (flag
/// MINIDUMP_MISC1_PROCESS_ID clear) next to a Linux /proc/pid/status stream with `Pid: 4242`.
/// The process id is in the dump, so the state must report it.
#[tokio::test]
async fn pid_of_linux_status_ignored_when_misc_info_has_no_pid() {
    let ctx1 = x86_context(LE, 0x1000, 0x2000);
    let stack1 = stack_at(0x2000);
    let t1 = Thread::new(LE, 1, &stack1, &ctx1);
    let mut misc = MiscStream::new(LE);
    misc.process_times = Some(MiscFieldsProcessTimes {
        process_create_time: 1000,
        process_user_time: 1,
        process_kernel_time: 2,
    });
    let dump = SynthMinidump::with_endian(LE)
        .add(ctx1)
        .add_memory(stack1)
        .add_thread(t1)
        .add_stream(misc)
        .set_linux_proc_status(b"Name:\tfoo\nPid:\t4242\nPPid:\t1\n")
        .add_system_info(sysinfo(
            md::ProcessorArchitecture::PROCESSOR_ARCHITECTURE_INTEL,
            md::PlatformId::Linux,
        ));
    let state = process(dump.finish().unwrap()).await;

    // The create time is the one of the misc-info stream ...
    assert_eq!(
        state.process_create_time,
        Some(std::time::SystemTime::UNIX_EPOCH + std::time::Duration::from_secs(1000))
    );
    // ... and the pid the one of the only stream that has one.
    assert_eq!(state.process_id, Some(4242));
}

/// No misc-info stream, and a Linux status stream that has no `Pid` line: no stream of the dump
/// gives a process id, so none must be reported (pid 0 is not in the dump).
#[tokio::test]
async fn linux_status_without_pid_line_reports_pid_zero() {
    let ctx1 = x86_context(LE, 0x1000, 0x2000);
    let stack1 = stack_at(0x2000);
    let t1 = Thread::new(LE, 1, &stack1, &ctx1);
    let dump = SynthMinidump::with_endian(LE)
        .add(ctx1)
        .add_memory(stack1)
        .add_thread(t1)
        .set_linux_proc_status(b"Name:\tfoo\nState:\tS (sleeping)\n")
        .add_system_info(sysinfo(
            md::ProcessorArchitecture::PROCESSOR_ARCHITECTURE_INTEL,
            md::PlatformId::Linux,
        ));
    let state = process(dump.finish().unwrap()).await;
    assert_eq!(state.process_id, None);
}

async fn mac_reason(
    arch: md::ProcessorArchitecture,
    plat: md::PlatformId,
    code: u32,
    flags: u32,
) -> CrashReason {
    let ctx1 = x86_context(LE, 0x1000, 0x2000);
    let stack1 = stack_at(0x2000);
    let t1 = Thread::new(LE, 1, &stack1, &ctx1);
    let mut ex = Exception::new(LE);
    ex.thread_id = 1;
    ex.exception_record.exception_code = code;
    ex.exception_record.exception_flags = flags;
    ex.exception_record.exception_address = 0x1234;
    let dump = SynthMinidump::with_endian(LE)
        .add(ctx1)
        .add_memory(stack1)
        .add_thread(t1)
        .add_exception(ex)
        .add_system_info(sysinfo(arch, plat));
    let state = process(dump.finish().unwrap()).await;
    state.exception_info.unwrap().reason
}

/// iOS on 32-bit ARM: the ARM sub-codes of osfmk/mach/arm/exception.h (shared by arm and arm64)
/// are only decoded when the CPU is Arm64.
#[tokio::test]
async fn mac_arm32_exception_subcodes_not_decoded() {
    use md::PlatformId::Ios;
    use md::ProcessorArchitecture::{PROCESSOR_ARCHITECTURE_ARM as ARM, PROCESSOR_ARCHITECTURE_ARM64 as ARM64};

    // The 64-bit sibling decodes them (this part passes): it is the reference.
    assert_eq!(
        mac_reason(ARM64, Ios, 1, 0x101).await,
        CrashReason::MacBadAccessArm(err::ExceptionCodeMacBadAccessArmType::EXC_ARM_DA_ALIGN)
    );

    // EXC_BAD_ACCESS / EXC_ARM_DA_ALIGN
    assert_eq!(
        mac_reason(ARM, Ios, 1, 0x101).await,
        CrashReason::MacBadAccessArm(err::ExceptionCodeMacBadAccessArmType::EXC_ARM_DA_ALIGN)
    );
    // EXC_BAD_INSTRUCTION / EXC_ARM_UNDEFINED
    assert_eq!(
        mac_reason(ARM, Ios, 2, 1).await,
        CrashReason::MacBadInstructionArm(
            err::ExceptionCodeMacBadInstructionArmType::EXC_ARM_UNDEFINED
        )
    );
    // EXC_ARITHMETIC / EXC_ARM_FP_DZ
    assert_eq!(
        mac_reason(ARM, Ios, 3, 2).await,
        CrashReason::MacArithmeticArm(err::ExceptionCodeMacArithmeticArmType::EXC_ARM_FP_DZ)
    );
    // EXC_BREAKPOINT / EXC_ARM_BREAKPOINT
    assert_eq!(
        mac_reason(ARM, Ios, 6, 1).await,
        CrashReason::MacBreakpointArm(err::ExceptionCodeMacBreakpointArmType::EXC_ARM_BREAKPOINT)
    );
}

/// macOS on 64-bit PowerPC: the PowerPC sub-codes are only decoded when the CPU is (32-bit) Ppc.
#[tokio::test]
async fn mac_ppc64_exception_subcodes_not_decoded() {
    use md::PlatformId::MacOs;
    use md::ProcessorArchitecture::{PROCESSOR_ARCHITECTURE_PPC as PPC, PROCESSOR_ARCHITECTURE_PPC64 as PPC64};

    // The 32-bit sibling decodes them (this part passes): it is the reference.
    assert_eq!(
        mac_reason(PPC, MacOs, 1, 0x101).await,
        CrashReason::MacBadAccessPpc(err::ExceptionCodeMacBadAccessPpcType::EXC_PPC_VM_PROT_READ)
    );

    assert_eq!(
        mac_reason(PPC64, MacOs, 1, 0x101).await,
        CrashReason::MacBadAccessPpc(err::ExceptionCodeMacBadAccessPpcType::EXC_PPC_VM_PROT_READ)
    );
    assert_eq!(
        mac_reason(PPC64, MacOs, 2, 3).await,
        CrashReason::MacBadInstructionPpc(
            err::ExceptionCodeMacBadInstructionPpcType::EXC_PPC_PRIVINST
        )
    );
    assert_eq!(
        mac_reason(PPC64, MacOs, 3, 2).await,
        CrashReason::MacArithmeticPpc(err::ExceptionCodeMacArithmeticPpcType::EXC_PPC_ZERO_DIVIDE)
    );
    assert_eq!(
        mac_reason(PPC64, MacOs, 6, 1).await,
        CrashReason::MacBreakpointPpc(err::ExceptionCodeMacBreakpointPpcType::EXC_PPC_BREAKPOINT)
    );
}

/// Two entries of the thread list carry the id 5 and the exception record names thread 5 (with a
/// readable exception context). The state designates ONE requesting thread (index 1); the other
/// entry is then not the requesting thread, so its walk has to start from its own context.
#[tokio::test]
async fn duplicate_thread_id_gives_exception_context_to_both_entries() {
    let ctx1 = x86_context(LE, 0x1000, 0x2000);
    let ctx2 = x86_context(LE, 0x1100, 0x3000);
    let ctxe = x86_context(LE, 0x7777, 0x3008);
    let stack1 = stack_at(0x2000);
    let stack2 = stack_at(0x3000);
    let t1 = Thread::new(LE, 5, &stack1, &ctx1);
    let t2 = Thread::new(LE, 5, &stack2, &ctx2);
    let mut ex = Exception::new(LE);
    ex.thread_id = 5;
    ex.exception_record.exception_code = 0xc0000005;
    ex.exception_record.exception_address = 0x7777;
    let (size, offset) = (ctxe.file_size(), ctxe.file_offset());
    let dump = SynthMinidump::with_endian(LE)
        .add(ctx1)
        .add(ctx2)
        .add(ctxe);
    // (size, rva) of the exception context
    ex.thread_context = (
        size.value().unwrap() as u32,
        offset.value().unwrap() as u32,
    );
    let dump = dump
        .add_memory(stack1)
        .add_memory(stack2)
        .add_thread(t1)
        .add_thread(t2)
        .add_exception(ex)
        .add_system_info(sysinfo(
            md::ProcessorArchitecture::PROCESSOR_ARCHITECTURE_INTEL,
            md::PlatformId::VER_PLATFORM_WIN32_NT,
        ));
    let state = process(dump.finish().unwrap()).await;

    assert_eq!(state.threads.len(), 2);
    let requesting = state.requesting_thread.expect("a requesting thread");
    let other = 1 - requesting;
    // The requesting thread starts from the exception's context.
    assert_eq!(
        state.threads[requesting].frames[0]
            .context
            .get_instruction_pointer(),
        0x7777
    );
    // The other entry is not the requesting thread: it starts from the context of its own entry.
    let own_ip = [0x1000u64, 0x1100][other];
    let own_sp = [0x2000u64, 0x3000][other];
    assert_eq!(
        state.threads[other].frames[0]
            .context
            .get_instruction_pointer(),
        own_ip
    );
    assert_eq!(
        state.threads[other].frames[0].context.get_stack_pointer(),
        own_sp
    );
}
