//! One test per confirmed finding of audit C20. Each FAILS on the unmodified tree.
use audit_c20_demo::*;
use minidump::Minidump;
use minidump_processor::ProcessorOptions;
use minidump_unwind::MultiSymbolProvider;

/// What the library prints for `dump` with default options and no symbols.
async fn library_reports(dump: &std::path::Path) -> (Vec<u8>, Vec<u8>) {
    let dump = Minidump::read_path(dump).unwrap();
    let provider = MultiSymbolProvider::new();
    let state = minidump_processor::process_minidump_with_options(
        &dump,
        &provider,
        ProcessorOptions::stable_basic(),
    )
    .await
    .unwrap();
    let mut human = Vec::new();
    state.print(&mut human).unwrap();
    let mut json = Vec::new();
    state.print_json(&mut json, false).unwrap();
    (human, json)
}

/// `--use-local-debuginfo` on a dump whose CPU is neither x86-64 nor arm64 (testdata/test.dmp
/// is x86): `DebugInfoSymbolProviderBuilder::build` hits `unimplemented!()`, the tool ends
/// by panic (exit status 101).
#[test]
fn use_local_debuginfo_panics_on_x86_dump() {
    let tmp = tempfile::tempdir().unwrap();
    let dump = testdata("test.dmp");
    for mode in [&[][..], &["--json"][..], &["--brief"][..]] {
        let mut args = mode.to_vec();
        args.push("--use-local-debuginfo");
        args.push(dump.to_str().unwrap());
        let out = run(tmp.path(), &args);
        assert_eq!(
            clean_exit_violation(&out),
            None,
            "minidump-stackwalk {args:?} did not exit cleanly"
        );
    }
}

/// `--output-file P P` (or `--cyborg P P`): the minidump is memory-mapped, then the same file
/// is truncated by `File::create`, and the next read of the mapping kills the process with
/// SIGBUS.
#[test]
fn output_file_same_as_minidump_dies_by_sigbus() {
    let tmp = tempfile::tempdir().unwrap();
    for flag in ["--output-file", "--cyborg"] {
        for mode in [&[][..], &["--json"][..], &["--dump"][..]] {
            if flag == "--cyborg" && !mode.is_empty() {
                continue;
            }
            let p = tmp.path().join("same.dmp");
            std::fs::copy(testdata("test.dmp"), &p).unwrap();
            let mut args = mode.to_vec();
            args.extend([flag, "same.dmp", "same.dmp"]);
            let out = run(tmp.path(), &args);
            assert_eq!(
                clean_exit_violation(&out),
                None,
                "minidump-stackwalk {args:?} did not exit cleanly"
            );
        }
    }
}

/// With `--verbose off` every fatal diagnostic of the tool (unreadable dump, rejected option
/// combination, processing error) is swallowed, because they are only emitted through the
/// `tracing` logger: the tool exits with status 1 and prints nothing at all.
#[test]
fn verbose_off_fails_without_diagnostic() {
    let tmp = tempfile::tempdir().unwrap();
    std::fs::write(tmp.path().join("empty.dmp"), b"").unwrap();
    let good = testdata("test.dmp");
    let good = good.to_str().unwrap();
    let cases: [&[&str]; 5] = [
        &["--verbose", "off", "does-not-exist.dmp"],
        &["--verbose", "off", "empty.dmp"],
        &["--verbose", "off", "."],
        // documented invalid combinations
        &["--verbose", "off", "--pretty", "--human", good],
        &["--verbose", "off", "--brief", "--json", good],
    ];
    for args in cases {
        let out = run(tmp.path(), args);
        assert_eq!(out.status.code(), Some(1), "{args:?}");
        assert!(out.stdout.is_empty(), "{args:?}");
        assert!(
            !out.stderr.is_empty(),
            "minidump-stackwalk {args:?} exited with status 1 without any diagnostic on stderr"
        );
    }
}

/// `--cyborg P --output-file P`: both writers create and truncate the same file and write
/// from offset 0, so the JSON overwrites the beginning of the human report. The tool exits 0
/// but the file holds neither report.
#[tokio::test(flavor = "multi_thread")]
async fn cyborg_and_output_file_same_path_garbles_both() {
    let tmp = tempfile::tempdir().unwrap();
    let dump = testdata("test.dmp");
    let (human, json) = library_reports(&dump).await;
    let out = run(
        tmp.path(),
        &[
            "--cyborg",
            "both.out",
            "--output-file",
            "both.out",
            dump.to_str().unwrap(),
        ],
    );
    let content = std::fs::read(tmp.path().join("both.out")).unwrap_or_default();
    if out.status.code() == Some(0) {
        // Accepted: then both reports must have been written (the property: "the combined
        // mode writes both; an output file receives what standard output would").
        let mut both = human.clone();
        both.extend_from_slice(&json);
        assert!(
            content == both,
            "exit status 0, but the file holds neither the human report nor the JSON report \
             nor both: {} bytes, human is {} bytes, JSON is {} bytes; it starts with {:?}",
            content.len(),
            human.len(),
            json.len(),
            String::from_utf8_lossy(&content[..content.len().min(40)])
        );
    } else {
        // Rejected: fine, if done cleanly.
        assert_eq!(clean_exit_violation(&out), None);
    }
}
