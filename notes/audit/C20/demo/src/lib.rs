//! Helpers shared by the confirming tests of audit C20 (command-line tool).
//!
//! The tests drive the real `minidump-stackwalk` binary built from the private
//! worktree /repo. Set `MDSW_BIN` to use an already built binary; otherwise
//! the binary is built (offline) into `$CARGO_TARGET_DIR` (default /repo_target).

use std::path::{Path, PathBuf};
use std::process::{Command, Output};
use std::sync::OnceLock;

pub const WORKTREE: &str = "/repo";

pub fn testdata(name: &str) -> PathBuf {
    PathBuf::from(WORKTREE).join("testdata").join(name)
}

pub fn mdsw_bin() -> PathBuf {
    static BIN: OnceLock<PathBuf> = OnceLock::new();
    BIN.get_or_init(|| {
        if let Ok(p) = std::env::var("MDSW_BIN") {
            return PathBuf::from(p);
        }
        let target = std::env::var("CARGO_TARGET_DIR")
            .unwrap_or_else(|_| "/repo_target".to_string());
        let status = Command::new(std::env::var("CARGO").unwrap_or_else(|_| "cargo".into()))
            .args(["build", "--offline", "-p", "minidump-stackwalk", "--manifest-path"])
            .arg(format!("{WORKTREE}/Cargo.toml"))
            .env("CARGO_NET_OFFLINE", "true")
            .env("CARGO_TARGET_DIR", &target)
            .status()
            .expect("could not run cargo");
        assert!(status.success(), "building minidump-stackwalk failed");
        PathBuf::from(target).join("debug").join("minidump-stackwalk")
    })
    .clone()
}

/// Run the tool (never interactive) with `args`, in directory `cwd`.
pub fn run(cwd: &Path, args: &[&str]) -> Output {
    Command::new(mdsw_bin())
        .current_dir(cwd)
        .arg("--no-interactive")
        .args(args)
        .output()
        .expect("could not start minidump-stackwalk")
}

/// What the property allows: exit status 0, or exit status 1 with a diagnostic on stderr
/// and nothing on stdout. Returns a description of the violation, if any.
pub fn clean_exit_violation(out: &Output) -> Option<String> {
    use std::os::unix::process::ExitStatusExt;
    if let Some(sig) = out.status.signal() {
        return Some(format!("terminated by signal {sig}"));
    }
    match out.status.code() {
        Some(0) => None,
        Some(1) => {
            if !out.stdout.is_empty() {
                Some("exit status 1 but a report on stdout".into())
            } else if out.stderr.is_empty() {
                Some("exit status 1 without any diagnostic on stderr".into())
            } else {
                None
            }
        }
        other => Some(format!(
            "exit status {other:?}; stderr: {}",
            String::from_utf8_lossy(&out.stderr)
        )),
    }
}
