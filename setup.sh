#!/bin/sh
# Build the engines offline and warm the nightly dependency build used for fact extraction.
set -e
cd "$(dirname "$0")"
export CARGO_NET_OFFLINE=true
(cd engines/mirfacts && cargo +nightly build --release --offline)
if [ -d engines/astq ]; then
  (cd engines/astq && cargo build --release --offline)
fi
python3 - <<'PY'
import sys
sys.path.insert(0, 'py')
import harness
print('facts:', harness.ensure_facts('default'))
PY
