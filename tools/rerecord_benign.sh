#!/bin/bash
cd "$(dirname "$0")/.."
ls benign | xargs -P 4 -I{} sh -c 'python3 tools/record_benign.py {} > /tmp/rebenign_{}.out 2>&1; cat /tmp/rebenign_{}.out'
