#!/usr/bin/env python3
"""refreshes the table of §8 in DESIGN.md from benign/*/meta.json"""
import json, os, re
V = os.path.dirname(os.path.dirname(os.path.abspath(__file__)))
rows = ['| refactoring | property | what | checks that still fire |', '|---|---|---|---|']
for d in sorted(os.listdir(os.path.join(V, 'benign'))):
    m = json.load(open(os.path.join(V, 'benign', d, 'meta.json')))
    al = '; '.join('%s (%s)' % (k, ', '.join(sorted(set(x.split()[0] for x in v)))) for k, v in sorted(m.get('alarms', {}).items())) or 'none'
    rows.append('| %s | %s | %s | %s |' % (d, m['property'], (m.get('summary') or '').replace('\n', ' ').replace('|', '/')[:170], al))
p = os.path.join(V, 'DESIGN.md')
s = open(p).read()
s = re.sub(r'<!-- BENIGN:BEGIN -->.*<!-- BENIGN:END -->', '<!-- BENIGN:BEGIN -->\n' + '\n'.join(rows) + '\n<!-- BENIGN:END -->', s, flags=re.S)
open(p, 'w').write(s)
print(len(rows) - 2, 'refactorings')
