#!/usr/bin/env python3
"""record_seed.py <ID> [name]  — copies a verified seed (/tmp/seed_<ID>_out) to /verif/seeded/<name>/, applies it to
/repo, runs every registered check, reverts /repo, and writes meta.json (which checks caught it)."""
import json, os, shutil, subprocess, sys
VERIF = os.path.dirname(os.path.dirname(os.path.abspath(__file__)))
sid = sys.argv[1]
name = sys.argv[2] if len(sys.argv) > 2 else sid
out = '/tmp/seed_%s_out' % sid
dst = os.path.join(VERIF, 'seeded', name)
os.makedirs(dst, exist_ok=True)
old_meta = None
if os.path.isdir(out):
    shutil.copy(os.path.join(out, 'patch.diff'), os.path.join(dst, 'patch.diff'))
    demo = '/tmp/seed_%s_demo' % sid if os.path.isdir('/tmp/seed_%s_demo' % sid) else os.path.join(out, 'demo')
    if os.path.isdir(os.path.join(dst, 'demo')):
        shutil.rmtree(os.path.join(dst, 'demo'))
    shutil.copytree(demo, os.path.join(dst, 'demo'), ignore=shutil.ignore_patterns('target'))
    notes = json.load(open(os.path.join(out, 'notes.json')))
    verify = open('/tmp/seed_%s_verify.log' % sid).read() if os.path.exists('/tmp/seed_%s_verify.log' % sid) else ''
    res_line = [l for l in verify.splitlines() if l.startswith('RESULT')]
else:
    # re-recording an already stored seed: only which checks fire is refreshed
    old_meta = json.load(open(os.path.join(dst, 'meta.json')))
import tempfile
from concurrent.futures import ThreadPoolExecutor
# the checks run against a scratch copy of /repo with the change applied (VERIF_REPO), exactly as the thorough
# tier's seeded replay does: /repo itself is never touched, so several seeds can be recorded while work goes on
tmp = tempfile.mkdtemp(prefix='seedrun_%s_' % sid)
scratch = os.path.join(tmp, 'repo')
subprocess.run(['rsync', '-a', '--exclude', 'target', '--exclude', '.git', '/repo/', scratch + '/'], check=True)
ap = subprocess.run(['patch', '-p1', '-s', '-d', scratch, '-i', os.path.join(dst, 'patch.diff')], stdout=subprocess.PIPE, stderr=subprocess.STDOUT, text=True)
assert ap.returncode == 0, 'patch does not apply: ' + ap.stdout
caught = {}
try:
    man = json.load(open(os.path.join(VERIF, 'MANIFEST.json')))
    only = sys.argv[3].split(',') if len(sys.argv) > 3 else None
    env = dict(os.environ, VERIF_EVIDENCE_DIR=os.path.join(tmp, 'evidence'), VERIF_REPO=scratch)
    pids = [c['property_id'] for c in man['checks'] if not only or c['property_id'] in only]

    def one(pid):
        return pid, subprocess.run([os.path.join(VERIF, 'check'), pid], cwd=VERIF, env=env, stdout=subprocess.PIPE, stderr=subprocess.STDOUT, text=True)
    # first one alone: it extracts the facts of the scratch tree
    results = [one(pids[0])]
    with ThreadPoolExecutor(6) as ex:
        results += list(ex.map(one, pids[1:]))
    for pid, r in results:
        if 'VIOLATION property=%s' % pid in r.stdout:
            rules = sorted(set(l.split()[0] for l in r.stdout.splitlines() if l.startswith('  C')))
            caught[pid] = rules
        elif r.returncode not in (0, 1):
            caught[pid] = ['CHECK-ERROR: ' + (r.stdout.strip().splitlines() or ['?'])[-1][:200]]
finally:
    shutil.rmtree(tmp, ignore_errors=True)
if old_meta is not None:
    meta = old_meta
    meta['caught_by'] = sorted(k for k, v in caught.items() if not v[0].startswith('CHECK-ERROR'))
    meta['rules_fired'] = caught
else:
    meta = {
        'id': name, 'property': notes.get('property', sid[:3]), 'origin': 'independent sub-agent given only the property text and a scratch worktree',
        'summary': notes.get('summary'), 'needs': notes.get('needs'), 'demo_cmd': notes.get('demo_cmd'),
        'verified': {'suite_passes_with_change': 'only test_full_dump_memory fails (baseline)' , 'demo_with_change': 'fails', 'demo_without_change': 'passes', 'how': 'tools/verify_seed.sh in the scratch worktree: ' + (res_line[-1] if res_line else 'n/a')},
        'caught_by': sorted(k for k, v in caught.items() if not v[0].startswith('CHECK-ERROR')), 'rules_fired': caught,
    }
json.dump(meta, open(os.path.join(dst, 'meta.json'), 'w'), indent=1)
print(name, 'property', meta['property'], 'caught by', meta['rules_fired'])
