#!/usr/bin/env python3
"""rewrites the seeded-changes table in DESIGN.md from seeded/*/meta.json"""
import json, os, re
V = os.path.dirname(os.path.dirname(os.path.abspath(__file__)))
rows = ['| seed | breaks | change (what it needs to manifest) | caught by |', '|---|---|---|---|']
for name in sorted(os.listdir(os.path.join(V, 'seeded'))):
    p = os.path.join(V, 'seeded', name, 'meta.json')
    if not os.path.exists(p):
        continue
    m = json.load(open(p))
    summ = (m.get('summary') or '').replace('|', '/').replace('\n', ' ')
    needs = (m.get('needs') or '').replace('|', '/').replace('\n', ' ')
    if len(summ) > 260:
        summ = summ[:257] + '...'
    if len(needs) > 200:
        needs = needs[:197] + '...'
    caught = '; '.join('%s (%s)' % (k, ', '.join(v)) for k, v in sorted(m.get('rules_fired', {}).items())) or '**missed**'
    note = m.get('note')
    rows.append('| `%s` | %s | %s — *needs:* %s | %s%s |' % (name, m.get('property'), summ, needs, caught, (' — ' + note) if note else ''))
table = '\n'.join(rows)
d = open(os.path.join(V, 'DESIGN.md')).read()
if 'SEEDED_TABLE' in d:
    d = d.replace('SEEDED_TABLE', '<!-- SEEDED:BEGIN -->\n' + table + '\n<!-- SEEDED:END -->')
else:
    d = re.sub(r'<!-- SEEDED:BEGIN -->.*?<!-- SEEDED:END -->', lambda _: '<!-- SEEDED:BEGIN -->\n' + table + '\n<!-- SEEDED:END -->', d, flags=re.S)
open(os.path.join(V, 'DESIGN.md'), 'w').write(d)
print(len(rows) - 2, 'seeds')
