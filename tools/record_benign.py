#!/usr/bin/env python3
"""record_benign.py <ID> — stores an independently written BEHAVIOUR-PRESERVING refactoring (/tmp/benign_<ID>_out) under
/verif/benign/<ID>/ and runs every registered check against a scratch copy of /repo with it applied.  Every check that
fires on it is a false alarm to triage (or the refactoring was not behaviour-preserving after all)."""
import json, os, shutil, subprocess, sys, tempfile
from concurrent.futures import ThreadPoolExecutor
VERIF = os.path.dirname(os.path.dirname(os.path.abspath(__file__)))
sid = sys.argv[1]
out = '/tmp/benign_%s_out' % sid
dst = os.path.join(VERIF, 'benign', sid)
os.makedirs(dst, exist_ok=True)
if os.path.isdir(out):
    shutil.copy(os.path.join(out, 'patch.diff'), os.path.join(dst, 'patch.diff'))
    notes = json.load(open(os.path.join(out, 'notes.json')))
else:
    notes = json.load(open(os.path.join(dst, 'meta.json')))
tmp = tempfile.mkdtemp(prefix='seedrun_b%s_' % sid)
scratch = os.path.join(tmp, 'repo')
subprocess.run(['rsync', '-a', '--exclude', 'target', '--exclude', '.git', '/repo/', scratch + '/'], check=True)
ap = subprocess.run(['patch', '-p1', '-s', '-d', scratch, '-i', os.path.join(dst, 'patch.diff')], stdout=subprocess.PIPE, stderr=subprocess.STDOUT, text=True)
assert ap.returncode == 0, 'patch does not apply: ' + ap.stdout
fired = {}
try:
    man = json.load(open(os.path.join(VERIF, 'MANIFEST.json')))
    env = dict(os.environ, VERIF_EVIDENCE_DIR=os.path.join(tmp, 'evidence'), VERIF_REPO=scratch)
    pids = [c['property_id'] for c in man['checks']]

    def one(pid):
        return pid, subprocess.run([os.path.join(VERIF, 'check'), pid], cwd=VERIF, env=env, stdout=subprocess.PIPE, stderr=subprocess.STDOUT, text=True)
    results = [one(pids[0])]
    with ThreadPoolExecutor(6) as ex:
        results += list(ex.map(one, pids[1:]))
    for pid, r in results:
        if 'VIOLATION property=%s' % pid in r.stdout or r.returncode not in (0,):
            fired[pid] = [l.strip()[:400] for l in r.stdout.splitlines() if l.startswith('  C')][:6] or [(r.stdout.strip().splitlines() or ['?'])[-1][:300]]
finally:
    shutil.rmtree(tmp, ignore_errors=True)
meta = {'id': sid, 'property': notes.get('property', sid[:3]), 'origin': 'independent sub-agent asked for a behaviour-preserving refactoring of the code involved',
        'summary': notes.get('summary'), 'why_equivalent': notes.get('why_equivalent'), 'suite_passes_with_change': notes.get('suite_passes_with_change'),
        'alarms': fired, 'triage': notes.get('triage', '')}
json.dump(meta, open(os.path.join(dst, 'meta.json'), 'w'), indent=1)
print(sid, 'alarms:', {k: [x.split()[0] for x in v] for k, v in fired.items()})
