#!/bin/bash
# verify_seed.sh <ID> [demo-cmd...]  — confirms an independently written breaking change:
#   suite still passes with it, its demonstration fails with it and passes without it,
#   then records it under /verif/seeded/<ID>/ and reports which checks catch it.
# Works on the agent's scratch worktree /tmp/seed_<ID> (change applied) and /tmp/seed_<ID>_out.
set -u
ID=$1
WT=/tmp/seed_$ID
OUT=/tmp/seed_${ID}_out
TGT=/tmp/seed_${ID}_target
LOG=/tmp/seed_${ID}_verify.log
export CARGO_NET_OFFLINE=true
: > $LOG
[ -f $OUT/patch.diff ] || { echo "no patch for $ID" | tee -a $LOG; exit 2; }
mkdir -p $WT/target
echo "== suite with change" >> $LOG
(cd $WT && CARGO_TARGET_DIR=$TGT cargo test --workspace --no-fail-fast --offline 2>&1 | grep -E "^test .* FAILED|^test result|error(\[|:)" | sort | uniq -c) >> $LOG 2>&1
FAILED=$(grep -E "^ +[0-9]+ test [a-zA-Z_:0-9]+ \.\.\. FAILED" $LOG | grep -v test_full_dump_memory | wc -l)
COMPILE_ERR=$(grep -cE "error(\[|:) " $LOG)
echo "suite: other failing tests=$FAILED" >> $LOG
DEMO=/tmp/seed_${ID}_demo
[ -d $DEMO ] || DEMO=$OUT/demo
run_demo() { (cd $DEMO && CARGO_TARGET_DIR=$TGT/demo timeout 900 cargo test --offline 2>&1 | tail -40); }
echo "== demo with change" >> $LOG
run_demo > /tmp/seed_${ID}_demo_with.log 2>&1; cat /tmp/seed_${ID}_demo_with.log >> $LOG
if grep -qE "error(\[|:) .*(could not compile|failed to load|mismatched)" /tmp/seed_${ID}_demo_with.log; then WITH=broken; elif grep -qE "test result: FAILED|error: test failed" /tmp/seed_${ID}_demo_with.log; then WITH=fail; else WITH=pass; fi
# (git stash is shared between worktrees of one repository: never use it here)
(cd $WT && git apply -R $OUT/patch.diff) || { echo "RESULT id=$ID cannot revert patch" | tee -a $LOG; exit 2; }
echo "== demo without change" >> $LOG
run_demo > /tmp/seed_${ID}_demo_clean.log 2>&1; cat /tmp/seed_${ID}_demo_clean.log >> $LOG
if grep -qE "could not compile|failed to load" /tmp/seed_${ID}_demo_clean.log; then WITHOUT=broken; elif grep -qE "test result: FAILED|error: test failed" /tmp/seed_${ID}_demo_clean.log; then WITHOUT=fail; else WITHOUT=pass; fi
(cd $WT && git apply $OUT/patch.diff)
echo "RESULT id=$ID suite_other_failures=$FAILED demo_with_change=$WITH demo_without_change=$WITHOUT" | tee -a $LOG
rm -rf $TGT
