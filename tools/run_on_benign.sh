#!/bin/bash
# run_on_benign.sh <id> <check>[,<check>...] : run checks on a scratch copy of /repo with a stored benign refactoring applied
sd=$1; checks=$2
T=$(mktemp -d /tmp/onseed_XXXX)
rsync -a --exclude target --exclude .git /repo/ $T/repo/ && patch -p1 -s -d $T/repo -i /verif/benign/$sd/patch.diff || exit 2
for c in ${checks//,/ }; do VERIF_REPO=$T/repo VERIF_EVIDENCE_DIR=$T/ev /verif/check $c | grep -v "^KNOWN"; done
rm -rf $T
