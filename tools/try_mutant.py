#!/usr/bin/env python3
"""try_mutant.py <file-relative-to-repo> <old> <new> <check>[,<check>..]  — hand mutant on a scratch copy of /repo:
replaces the first occurrence of <old> by <new> (count must be >= 1), runs the named checks with VERIF_REPO pointing
at the copy, prints their verdict lines, removes the copy."""
import os, shutil, subprocess, sys, tempfile
VERIF = os.path.dirname(os.path.dirname(os.path.abspath(__file__)))
rel, old, new, checks = sys.argv[1:5]
nth = int(sys.argv[5]) if len(sys.argv) > 5 else 1
tmp = tempfile.mkdtemp(prefix='mutant_')
try:
    dst = os.path.join(tmp, 'repo')
    subprocess.run(['rsync', '-a', '--exclude', 'target', '--exclude', '.git', '/repo/', dst + '/'], check=True)
    p = os.path.join(dst, rel)
    s = open(p).read()
    assert s.count(old) >= nth, 'pattern occurs %d times' % s.count(old)
    parts = s.split(old)
    s = old.join(parts[:nth]) + new + old.join(parts[nth:])
    open(p, 'w').write(s)
    env = dict(os.environ, VERIF_REPO=dst, VERIF_EVIDENCE_DIR=os.path.join(tmp, 'ev'))
    for c in checks.split(','):
        r = subprocess.run([os.path.join(VERIF, 'check'), c], cwd=VERIF, env=env, stdout=subprocess.PIPE, stderr=subprocess.STDOUT, text=True)
        lines = [l for l in r.stdout.splitlines() if not l.startswith('KNOWN-FINDING')]
        for l in lines[-6:]:
            print(c, '|', l[:420])
finally:
    shutil.rmtree(tmp, ignore_errors=True)
