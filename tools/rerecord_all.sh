#!/bin/bash
# re-runs every registered check against every stored seeded change (scratch copies), 4 seeds at a time
cd "$(dirname "$0")/.."
ls seeded | xargs -P 4 -I{} sh -c 'python3 tools/record_seed.py {} > /tmp/rerecord_{}.out 2>&1; cat /tmp/rerecord_{}.out'
python3 tools/seeded_table.py | tail -1
