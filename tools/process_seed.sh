#!/bin/bash
# process_seed.sh <ID>... : verify each independently written change (suite + demo both ways), record which checks catch it
cd "$(dirname "$0")/.."
for s in "$@"; do
  ( tools/verify_seed.sh $s > /tmp/seed_${s}_verify.out 2>&1; python3 tools/record_seed.py $s > /tmp/record_$s.out 2>&1 ) &
done
wait
for s in "$@"; do cat /tmp/seed_${s}_verify.out /tmp/record_$s.out; done
