// mirfacts: a rustc_private driver that dumps the freshly built MIR (`mir_built`)
// of every body of the crate being compiled as JSON facts, with callees resolved
// through type information.  Used as RUSTC_WORKSPACE_WRAPPER; argv[1] (the real
// rustc path) is dropped.  Output: $MIRFACTS_OUT/<crate>.<kind>.json, one write
// per process.  Nothing of the compiled program is ever executed.
#![feature(rustc_private)]
extern crate rustc_abi;
extern crate rustc_data_structures;
extern crate rustc_driver;
extern crate rustc_hir;
extern crate rustc_interface;
extern crate rustc_middle;
extern crate rustc_session;
extern crate rustc_span;

use rustc_data_structures::steal::Steal;
use rustc_driver::{Callbacks, Compilation};
use rustc_hir::def::DefKind;
use rustc_hir::def_id::{DefId, LocalDefId, LOCAL_CRATE};
use rustc_interface::interface::{Compiler, Config};
use rustc_middle::mir::*;
use rustc_middle::ty::print::with_no_trimmed_paths;
use rustc_middle::ty::{self, Ty, TyCtxt, TypeVisitableExt};
use rustc_middle::util::Providers;
use rustc_span::hygiene::{ExpnKind, MacroKind};
use rustc_span::Span;
use std::collections::BTreeSet;
use std::fmt::Write as _;
use std::sync::Mutex;

static FNS: Mutex<Vec<String>> = Mutex::new(Vec::new());
static CONST_ITEMS: Mutex<BTreeSet<(u32, u32)>> = Mutex::new(BTreeSet::new());
static ORIG: Mutex<Option<for<'tcx> fn(TyCtxt<'tcx>, LocalDefId) -> &'tcx Steal<Body<'tcx>>>> =
    Mutex::new(None);

// ---------------------------------------------------------------- JSON helpers
fn esc(s: &str, out: &mut String) {
    out.push('"');
    for c in s.chars() {
        match c {
            '"' => out.push_str("\\\""),
            '\\' => out.push_str("\\\\"),
            '\n' => out.push_str("\\n"),
            '\r' => out.push_str("\\r"),
            '\t' => out.push_str("\\t"),
            c if (c as u32) < 0x20 => {
                let _ = write!(out, "\\u{:04x}", c as u32);
            }
            c => out.push(c),
        }
    }
    out.push('"');
}
fn js(s: &str) -> String {
    let mut o = String::new();
    esc(s, &mut o);
    o
}
fn trunc(s: String) -> String {
    trunc_n(s, 400)
}
fn trunc_n(mut s: String, lim: usize) -> String {
    if s.len() > lim {
        let mut n = lim;
        while !s.is_char_boundary(n) {
            n -= 1;
        }
        s.truncate(n);
        s.push_str("...");
    }
    s
}
fn ty_s<'tcx>(t: Ty<'tcx>) -> String {
    trunc(with_no_trimmed_paths!(t.to_string()))
}
fn path_s(tcx: TyCtxt<'_>, d: DefId) -> String {
    let p = with_no_trimmed_paths!(tcx.def_path_str(d));
    if d.is_local() && !p.starts_with('<') {
        format!("{}::{}", tcx.crate_name(LOCAL_CRATE), p)
    } else {
        p
    }
}

// ---------------------------------------------------------------- spans
struct Loc {
    line: usize,
    mac: Option<String>,
    macs: Option<String>,
    desugar: Option<String>,
}
fn loc(tcx: TyCtxt<'_>, span: Span) -> Loc {
    let mut mac = None;
    let mut macs = None;
    let mut desugar = None;
    if span.from_expansion() {
        if let Some(k) = span.desugaring_kind() {
            desugar = Some(format!("{:?}", k));
        }
        // outermost macro of the backtrace; the whole chain (innermost first) when nested
        let mut chain: Vec<String> = Vec::new();
        for ed in span.macro_backtrace() {
            if let ExpnKind::Macro(kind, name) = ed.kind {
                let s = match kind {
                    MacroKind::Bang => format!("{}!", name),
                    MacroKind::Attr => format!("#[{}]", name),
                    MacroKind::Derive => format!("derive({})", name),
                };
                chain.push(s.clone());
                mac = Some(s);
            }
        }
        if chain.len() > 1 {
            macs = Some(chain.join(">"));
        }
    }
    let root = span.source_callsite();
    let line = tcx.sess.source_map().lookup_char_pos(root.lo()).line;
    Loc { line, mac, macs, desugar }
}
fn loc_json(tcx: TyCtxt<'_>, span: Span, out: &mut String) {
    let l = loc(tcx, span);
    let _ = write!(out, "\"line\":{}", l.line);
    if let Some(m) = l.mac {
        let _ = write!(out, ",\"mac\":{}", js(&m));
    }
    if let Some(m) = l.macs {
        let _ = write!(out, ",\"macs\":{}", js(&m));
    }
    if let Some(d) = l.desugar {
        let _ = write!(out, ",\"ds\":{}", js(&d));
    }
}

// ---------------------------------------------------------------- places / operands
struct Cx<'a, 'tcx> {
    tcx: TyCtxt<'tcx>,
    body: &'a Body<'tcx>,
    env: ty::TypingEnv<'tcx>,
}

impl<'a, 'tcx> Cx<'a, 'tcx> {
    fn place(&self, p: Place<'tcx>, out: &mut String) {
        let _ = write!(out, "{{\"l\":{}", p.local.as_usize());
        if !p.projection.is_empty() {
            out.push_str(",\"p\":[");
            let mut pty = rustc_middle::mir::PlaceTy::from_ty(self.body.local_decls[p.local].ty);
            for (i, elem) in p.projection.iter().enumerate() {
                if i > 0 {
                    out.push(',');
                }
                match elem {
                    ProjectionElem::Deref => out.push_str("\"*\""),
                    ProjectionElem::Field(f, _) => {
                        let mut name: Option<String> = None;
                        match pty.ty.kind() {
                            ty::Adt(adt, _) => {
                                let v = match pty.variant_index {
                                    Some(v) => Some(v),
                                    None => {
                                        if adt.is_enum() {
                                            None
                                        } else {
                                            Some(rustc_abi::FIRST_VARIANT)
                                        }
                                    }
                                };
                                if let Some(v) = v {
                                    if let Some(fd) = adt.variant(v).fields.get(f) {
                                        name = Some(fd.name.to_string());
                                    }
                                }
                            }
                            _ => {}
                        }
                        let _ = write!(out, "{{\"f\":{}", f.as_usize());
                        if let Some(n) = name {
                            let _ = write!(out, ",\"n\":{}", js(&n));
                        }
                        out.push('}');
                    }
                    ProjectionElem::Index(l) => {
                        let _ = write!(out, "{{\"i\":{}}}", l.as_usize());
                    }
                    ProjectionElem::ConstantIndex { offset, from_end, .. } => {
                        let _ = write!(out, "{{\"ci\":{},\"fe\":{}}}", offset, from_end);
                    }
                    ProjectionElem::Subslice { from, to, from_end } => {
                        let _ = write!(out, "{{\"sub\":[{},{}],\"fe\":{}}}", from, to, from_end);
                    }
                    ProjectionElem::Downcast(name, idx) => {
                        let n = match name {
                            Some(s) => s.to_string(),
                            None => format!("#{}", idx.as_usize()),
                        };
                        let _ = write!(out, "{{\"dc\":{}}}", js(&n));
                    }
                    ProjectionElem::OpaqueCast(_) => out.push_str("\"opaque\""),
                    ProjectionElem::UnwrapUnsafeBinder(_) => out.push_str("\"unbind\""),
                }
                pty = pty.projection_ty(self.tcx, elem);
            }
            out.push(']');
        }
        out.push('}');
    }

    fn fn_ref(&self, did: DefId, args: ty::GenericArgsRef<'tcx>, out: &mut String) {
        // resolved callee where the types allow it
        let tcx = self.tcx;
        let decl = path_s(tcx, did);
        let mut resolved = false;
        let mut target = did;
        let mut targs = args;
        if let Ok(Some(inst)) = ty::Instance::try_resolve(tcx, self.env, did, args) {
            match inst.def {
                ty::InstanceKind::Item(d) => {
                    target = d;
                    targs = inst.args;
                    resolved = true;
                }
                ty::InstanceKind::Virtual(..) => {}
                _ => {
                    target = inst.def_id();
                    targs = inst.args;
                    resolved = true;
                }
            }
        }
        // a trait method that stayed at the trait declaration is unresolved (dyn / generic)
        if resolved && target == did && tcx.trait_of_assoc(did).is_some() {
            // default method bodies resolve to the trait item itself: keep `resolved`
            // only if the item has a body
            if !tcx.defaultness(did).has_value() {
                resolved = false;
            }
        }
        let _ = write!(out, "\"fn\":{}", js(&path_s(tcx, target)));
        if target != did {
            let _ = write!(out, ",\"decl\":{}", js(&decl));
        }
        let _ = write!(out, ",\"res\":{}", resolved);
        let _ = write!(out, ",\"krate\":{}", js(tcx.crate_name(target.krate).as_str()));
        // generic args (types only), of the *declaration* so that Self comes first for trait methods
        let mut tys: Vec<String> = Vec::new();
        for a in args.iter() {
            if let Some(t) = a.as_type() {
                // reveal `impl Trait` return types of other functions where that is possible
                let shown = if t.has_opaque_types() && !t.has_param() && !t.has_infer() {
                    match tcx.try_normalize_erasing_regions(self.env, ty::Unnormalized::new_wip(t)) {
                        Ok(n) => n,
                        Err(_) => t,
                    }
                } else {
                    t
                };
                tys.push(trunc_n(with_no_trimmed_paths!(shown.to_string()), 3000));
            }
        }
        if !tys.is_empty() {
            out.push_str(",\"targs\":[");
            for (i, t) in tys.iter().enumerate() {
                if i > 0 {
                    out.push(',');
                }
                esc(t, out);
            }
            out.push(']');
        }
        let _ = targs;
        let dp = tcx.def_path_str(did);
        if dp.ends_with("mem::size_of") || dp.ends_with("mem::align_of") {
            if let Some(t) = args.iter().find_map(|a| a.as_type()) {
                if !t.has_param() {
                    if let Ok(l) = tcx.layout_of(self.env.as_query_input(t)) {
                        let v = if dp.ends_with("size_of") { l.size.bytes() } else { l.align.abi.bytes() };
                        let _ = write!(out, ",\"layout\":{}", v);
                    }
                }
            }
        }
    }

    fn constant(&self, c: &ConstOperand<'tcx>, out: &mut String) {
        let tcx = self.tcx;
        let ty = c.const_.ty();
        out.push_str("{\"k\":{");
        let _ = write!(out, "\"ty\":{}", js(&ty_s(ty)));
        match ty.kind() {
            ty::FnDef(did, args) => {
                out.push(',');
                self.fn_ref(*did, args, out);
            }
            _ => match c.const_ {
                Const::Val(val, _) => {
                    if let Some(si) = val.try_to_scalar_int() {
                        self.scalar(si, ty, out);
                    } else if let (ConstValue::Slice { .. }, Some(bytes)) = (val, if matches!(val, ConstValue::Slice { .. }) { val.try_get_slice_bytes_for_diagnostics(tcx) } else { None }) {
                        if let Ok(s) = std::str::from_utf8(bytes) {
                            let _ = write!(out, ",\"str\":{}", js(s));
                        } else {
                            out.push_str(",\"bytes\":[");
                            for (i, b) in bytes.iter().enumerate() {
                                if i > 0 {
                                    out.push(',');
                                }
                                let _ = write!(out, "{}", b);
                            }
                            out.push(']');
                        }
                    } else if let ConstValue::ZeroSized = val {
                        out.push_str(",\"zst\":true");
                    } else if let ConstValue::Scalar(rustc_middle::mir::interpret::Scalar::Ptr(ptr, _)) = val {
                        // reference to a static item
                        let (prov, _off) = ptr.into_raw_parts();
                        match tcx.try_get_global_alloc(prov.alloc_id()) {
                            Some(rustc_middle::mir::interpret::GlobalAlloc::Static(sd)) => {
                                let _ = write!(out, ",\"static\":{}", js(&path_s(tcx, sd)));
                            }
                            Some(rustc_middle::mir::interpret::GlobalAlloc::Memory(alloc)) => {
                                // `&[u8; N]` literals (byte strings, the templates of format_args!): the bytes themselves
                                let is_bytes = matches!(ty.kind(), ty::Ref(_, inner, _) if matches!(inner.kind(), ty::Array(e, _) if *e == tcx.types.u8));
                                let a = alloc.inner();
                                if is_bytes && _off.bytes() == 0 && a.len() <= 512 && a.provenance().ptrs().is_empty() {
                                    let bytes = a.inspect_with_uninit_and_ptr_outside_interpreter(0..a.len());
                                    out.push_str(",\"bytes\":[");
                                    for (i, b) in bytes.iter().enumerate() {
                                        if i > 0 {
                                            out.push(',');
                                        }
                                        let _ = write!(out, "{}", b);
                                    }
                                    out.push(']');
                                }
                            }
                            _ => {}
                        }
                    }
                }
                Const::Unevaluated(u, _) => {
                    let _ = write!(out, ",\"item\":{}", js(&path_s(tcx, u.def)));
                    // type arguments of an associated / generic constant (`<T as Trait>::CONST`): the Self type first
                    let tys: Vec<String> = u
                        .args
                        .iter()
                        .filter_map(|a| a.as_type())
                        .map(|t| trunc_n(with_no_trimmed_paths!(t.to_string()), 300))
                        .collect();
                    if !tys.is_empty() && u.promoted.is_none() {
                        out.push_str(",\"iargs\":[");
                        for (i, t) in tys.iter().enumerate() {
                            if i > 0 {
                                out.push(',');
                            }
                            esc(t, out);
                        }
                        out.push(']');
                    }
                    if u.promoted.is_none() {
                        CONST_ITEMS
                            .lock()
                            .unwrap()
                            .insert((u.def.krate.as_u32(), u.def.index.as_u32()));
                    }
                }
                Const::Ty(_, ct) => {
                    if let Some(si) = ct.try_to_leaf() {
                        self.scalar(si, ty, out);
                    } else if let Some(bytes) = ct.try_to_value().and_then(|v| {
                        let is_str = matches!(v.ty.kind(), ty::Ref(_, inner, _) if inner.is_str());
                        if is_str { v.try_to_raw_bytes(tcx) } else { None }
                    }) {
                        if let Ok(st) = std::str::from_utf8(bytes) {
                            let _ = write!(out, ",\"str\":{}", js(st));
                        }
                    } else {
                        let _ = write!(out, ",\"tyconst\":{}", js(&trunc(format!("{:?}", ct))));
                    }
                }
            },
        }
        out.push_str("}}");
    }

    fn scalar(&self, si: ty::ScalarInt, ty: Ty<'tcx>, out: &mut String) {
        let size = si.size();
        match ty.kind() {
            ty::Bool => {
                let _ = write!(out, ",\"int\":{}", si.to_bits(size));
            }
            ty::Int(_) => {
                let _ = write!(out, ",\"int\":{}", si.to_int(size));
            }
            ty::Char => {
                let v = si.to_bits(size) as u32;
                let _ = write!(out, ",\"int\":{}", v);
            }
            ty::Float(_) => {
                let bits = si.to_bits(size);
                let f = if size.bytes() == 4 {
                    f32::from_bits(bits as u32) as f64
                } else {
                    f64::from_bits(bits as u64)
                };
                let _ = write!(out, ",\"bits\":{},\"float\":{}", bits, js(&format!("{}", f)));
            }
            _ => {
                let _ = write!(out, ",\"int\":{}", si.to_bits(size));
            }
        }
    }

    fn operand(&self, o: &Operand<'tcx>, out: &mut String) {
        match o {
            Operand::Copy(p) => {
                out.push_str("{\"c\":");
                self.place(*p, out);
                out.push('}');
            }
            Operand::Move(p) => {
                out.push_str("{\"m\":");
                self.place(*p, out);
                out.push('}');
            }
            Operand::Constant(c) => self.constant(c, out),
            Operand::RuntimeChecks(_) => out.push_str("{\"k\":{\"ty\":\"bool\",\"rtc\":true}}"),
        }
    }

    fn rvalue(&self, rv: &Rvalue<'tcx>, out: &mut String) {
        let tcx = self.tcx;
        match rv {
            Rvalue::Use(o, _) => {
                out.push_str("{\"k\":\"use\",\"x\":");
                self.operand(o, out);
                out.push('}');
            }
            Rvalue::Repeat(o, n) => {
                out.push_str("{\"k\":\"repeat\",\"x\":");
                self.operand(o, out);
                let _ = write!(out, ",\"n\":{}}}", js(&trunc(format!("{:?}", n))));
            }
            Rvalue::Ref(_, bk, p) => {
                let m = matches!(bk, BorrowKind::Mut { .. });
                let _ = write!(out, "{{\"k\":\"ref\",\"mut\":{},\"p\":", m);
                self.place(*p, out);
                out.push('}');
            }
            Rvalue::ThreadLocalRef(d) => {
                let _ = write!(out, "{{\"k\":\"tls\",\"item\":{}}}", js(&path_s(tcx, *d)));
            }
            Rvalue::RawPtr(_, p) => {
                out.push_str("{\"k\":\"rawptr\",\"p\":");
                self.place(*p, out);
                out.push('}');
            }
            Rvalue::Cast(kind, o, t) => {
                let from = o.ty(&self.body.local_decls, tcx);
                let kd = match kind {
                    CastKind::IntToInt => "IntToInt".to_string(),
                    CastKind::PointerCoercion(pc, _) => format!("Coerce:{:?}", pc),
                    k => format!("{:?}", k),
                };
                let _ = write!(
                    out,
                    "{{\"k\":\"cast\",\"ck\":{},\"from\":{},\"to\":{},\"x\":",
                    js(&trunc(kd)),
                    js(&ty_s(from)),
                    js(&ty_s(*t))
                );
                self.operand(o, out);
                out.push('}');
            }
            Rvalue::BinaryOp(op, ops) => {
                let t = ops.0.ty(&self.body.local_decls, tcx);
                let _ = write!(out, "{{\"k\":\"bin\",\"op\":\"{:?}\",\"ty\":{},\"l\":", op, js(&ty_s(t)));
                self.operand(&ops.0, out);
                out.push_str(",\"r\":");
                self.operand(&ops.1, out);
                out.push('}');
            }
            Rvalue::UnaryOp(op, o) => {
                let t = o.ty(&self.body.local_decls, tcx);
                let _ = write!(out, "{{\"k\":\"un\",\"op\":\"{:?}\",\"ty\":{},\"x\":", op, js(&ty_s(t)));
                self.operand(o, out);
                out.push('}');
            }
            Rvalue::Discriminant(p) => {
                out.push_str("{\"k\":\"discr\",\"p\":");
                self.place(*p, out);
                // all discriminant values of the enum: lets a consumer see that `[1 -> a] else -> b` and
                // `[0 -> b, 1 -> a] else -> unreachable` are the same two-way decision
                let pty = p.ty(self.body, self.tcx).ty;
                if let ty::Adt(adt, _) = pty.kind() {
                    if adt.is_enum() && adt.variants().len() <= 64 {
                        out.push_str(",\"dv\":[");
                        let mut first = true;
                        for (_, d) in adt.discriminants(self.tcx) {
                            if !first {
                                out.push(',');
                            }
                            first = false;
                            let _ = write!(out, "{}", d.val);
                        }
                        out.push(']');
                    }
                }
                out.push('}');
            }
            Rvalue::Aggregate(kind, fields) => {
                out.push_str("{\"k\":\"agg\",");
                match &**kind {
                    AggregateKind::Array(t) => {
                        let _ = write!(out, "\"ak\":\"array\",\"ty\":{}", js(&ty_s(*t)));
                    }
                    AggregateKind::Tuple => out.push_str("\"ak\":\"tuple\""),
                    AggregateKind::Adt(did, vidx, _, _, _) => {
                        let adt = tcx.adt_def(*did);
                        let v = adt.variant(*vidx);
                        let _ = write!(
                            out,
                            "\"ak\":\"adt\",\"adt\":{},\"variant\":{},\"fields\":[",
                            js(&path_s(tcx, *did)),
                            js(v.name.as_str())
                        );
                        for (i, f) in v.fields.iter().enumerate() {
                            if i > 0 {
                                out.push(',');
                            }
                            esc(f.name.as_str(), out);
                        }
                        out.push(']');
                    }
                    AggregateKind::Closure(did, _) => {
                        let _ = write!(out, "\"ak\":\"closure\",\"def\":{}", js(&path_s(tcx, *did)));
                    }
                    AggregateKind::Coroutine(did, _) => {
                        let _ = write!(out, "\"ak\":\"coroutine\",\"def\":{}", js(&path_s(tcx, *did)));
                    }
                    AggregateKind::CoroutineClosure(did, _) => {
                        let _ =
                            write!(out, "\"ak\":\"coroutine_closure\",\"def\":{}", js(&path_s(tcx, *did)));
                    }
                    AggregateKind::RawPtr(..) => out.push_str("\"ak\":\"rawptr\""),
                }
                out.push_str(",\"xs\":[");
                for (i, f) in fields.iter().enumerate() {
                    if i > 0 {
                        out.push(',');
                    }
                    self.operand(f, out);
                }
                out.push_str("]}");
            }
            Rvalue::CopyForDeref(p) => {
                out.push_str("{\"k\":\"use\",\"x\":{\"c\":");
                self.place(*p, out);
                out.push_str("}}");
            }
            Rvalue::WrapUnsafeBinder(o, _) => {
                out.push_str("{\"k\":\"use\",\"x\":");
                self.operand(o, out);
                out.push('}');
            }
        }
    }

    fn statement(&self, st: &Statement<'tcx>, out: &mut String) -> bool {
        match &st.kind {
            StatementKind::Assign(b) => {
                let (p, rv) = &**b;
                out.push_str("{\"k\":\"assign\",\"lhs\":");
                self.place(*p, out);
                out.push_str(",\"rv\":");
                self.rvalue(rv, out);
                out.push(',');
                loc_json(self.tcx, st.source_info.span, out);
                out.push('}');
                true
            }
            StatementKind::SetDiscriminant { place, variant_index } => {
                out.push_str("{\"k\":\"setdiscr\",\"lhs\":");
                self.place(**place, out);
                let _ = write!(out, ",\"v\":{}}}", variant_index.as_usize());
                true
            }
            StatementKind::StorageDead(l) => {
                let _ = write!(out, "{{\"k\":\"dead\",\"l\":{}}}", l.as_usize());
                true
            }
            StatementKind::StorageLive(l) => {
                let _ = write!(out, "{{\"k\":\"live\",\"l\":{}}}", l.as_usize());
                true
            }
            StatementKind::Intrinsic(_) => {
                out.push_str("{\"k\":\"intrinsic\"}");
                true
            }
            _ => false,
        }
    }

    fn terminator(&self, t: &Terminator<'tcx>, out: &mut String) {
        let tcx = self.tcx;
        out.push('{');
        match &t.kind {
            TerminatorKind::Goto { target } => {
                let _ = write!(out, "\"k\":\"goto\",\"t\":{}", target.as_usize());
            }
            TerminatorKind::SwitchInt { discr, targets } => {
                out.push_str("\"k\":\"switch\",\"x\":");
                self.operand(discr, out);
                let dty = discr.ty(&self.body.local_decls, tcx);
                let _ = write!(out, ",\"ty\":{},\"ts\":[", js(&ty_s(dty)));
                for (i, (v, bb)) in targets.iter().enumerate() {
                    if i > 0 {
                        out.push(',');
                    }
                    let _ = write!(out, "[{},{}]", v, bb.as_usize());
                }
                let _ = write!(out, "],\"o\":{}", targets.otherwise().as_usize());
            }
            TerminatorKind::UnwindResume => out.push_str("\"k\":\"resume\""),
            TerminatorKind::UnwindTerminate(_) => out.push_str("\"k\":\"terminate\""),
            TerminatorKind::Return => out.push_str("\"k\":\"return\""),
            TerminatorKind::Unreachable => out.push_str("\"k\":\"unreachable\""),
            TerminatorKind::Drop { place, target, .. } => {
                out.push_str("\"k\":\"drop\",\"p\":");
                self.place(*place, out);
                let _ = write!(out, ",\"t\":{}", target.as_usize());
            }
            TerminatorKind::Call { func, args, destination, target, .. } => {
                out.push_str("\"k\":\"call\",");
                match func {
                    Operand::Constant(c) if matches!(c.const_.ty().kind(), ty::FnDef(..)) => {
                        if let ty::FnDef(did, gargs) = c.const_.ty().kind() {
                            self.fn_ref(*did, gargs, out);
                        }
                    }
                    other => {
                        out.push_str("\"fnptr\":");
                        self.operand(other, out);
                    }
                }
                out.push_str(",\"args\":[");
                for (i, a) in args.iter().enumerate() {
                    if i > 0 {
                        out.push(',');
                    }
                    self.operand(&a.node, out);
                }
                out.push_str("],\"dest\":");
                self.place(*destination, out);
                let dty = destination.ty(&self.body.local_decls, tcx).ty;
                let _ = write!(out, ",\"rty\":{}", js(&ty_s(dty)));
                if let Some(t) = target {
                    let _ = write!(out, ",\"t\":{}", t.as_usize());
                }
            }
            TerminatorKind::TailCall { func, args, .. } => {
                out.push_str("\"k\":\"tailcall\",");
                if let ty::FnDef(did, gargs) = func.ty(&self.body.local_decls, tcx).kind() {
                    self.fn_ref(*did, gargs, out);
                }
                out.push_str(",\"args\":[");
                for (i, a) in args.iter().enumerate() {
                    if i > 0 {
                        out.push(',');
                    }
                    self.operand(&a.node, out);
                }
                out.push(']');
            }
            TerminatorKind::Assert { cond, expected, msg, target, .. } => {
                out.push_str("\"k\":\"assert\",\"cond\":");
                self.operand(cond, out);
                let _ = write!(out, ",\"exp\":{},\"t\":{},", expected, target.as_usize());
                match &**msg {
                    AssertKind::BoundsCheck { len, index } => {
                        out.push_str("\"ak\":\"bounds\",\"len\":");
                        self.operand(len, out);
                        out.push_str(",\"idx\":");
                        self.operand(index, out);
                    }
                    AssertKind::Overflow(op, l, r) => {
                        let t = l.ty(&self.body.local_decls, tcx);
                        let _ = write!(out, "\"ak\":\"overflow\",\"op\":\"{:?}\",\"ty\":{},\"l\":", op, js(&ty_s(t)));
                        self.operand(l, out);
                        out.push_str(",\"r\":");
                        self.operand(r, out);
                    }
                    AssertKind::OverflowNeg(o) => {
                        out.push_str("\"ak\":\"overflow_neg\",\"l\":");
                        self.operand(o, out);
                    }
                    AssertKind::DivisionByZero(o) => {
                        out.push_str("\"ak\":\"div_zero\",\"l\":");
                        self.operand(o, out);
                    }
                    AssertKind::RemainderByZero(o) => {
                        out.push_str("\"ak\":\"rem_zero\",\"l\":");
                        self.operand(o, out);
                    }
                    other => {
                        let _ = write!(out, "\"ak\":\"other\",\"what\":{}", js(&trunc(format!("{:?}", other))));
                    }
                }
            }
            TerminatorKind::Yield { value, resume, drop, .. } => {
                out.push_str("\"k\":\"yield\",\"x\":");
                self.operand(value, out);
                let _ = write!(out, ",\"t\":{}", resume.as_usize());
                if let Some(d) = drop {
                    let _ = write!(out, ",\"dropt\":{}", d.as_usize());
                }
            }
            TerminatorKind::CoroutineDrop => out.push_str("\"k\":\"coroutine_drop\""),
            TerminatorKind::FalseEdge { real_target, .. } => {
                let _ = write!(out, "\"k\":\"goto\",\"t\":{},\"false\":true", real_target.as_usize());
            }
            TerminatorKind::FalseUnwind { real_target, .. } => {
                let _ = write!(out, "\"k\":\"goto\",\"t\":{},\"false\":true", real_target.as_usize());
            }
            TerminatorKind::InlineAsm { targets, .. } => {
                out.push_str("\"k\":\"asm\",\"ts\":[");
                for (i, t) in targets.iter().enumerate() {
                    if i > 0 {
                        out.push(',');
                    }
                    let _ = write!(out, "{}", t.as_usize());
                }
                out.push(']');
            }
        }
        out.push(',');
        loc_json(tcx, t.source_info.span, out);
        out.push('}');
    }
}

fn dump_body<'tcx>(tcx: TyCtxt<'tcx>, def: LocalDefId, body: &Body<'tcx>) -> String {
    let did = def.to_def_id();
    let env = ty::TypingEnv::post_analysis(tcx, did);
    let cx = Cx { tcx, body, env };
    let mut out = String::with_capacity(4096);
    let dk = tcx.def_kind(did);
    let kind = match dk {
        DefKind::Fn => "fn",
        DefKind::AssocFn => "method",
        DefKind::Closure => {
            if tcx.is_coroutine(did) {
                "coroutine"
            } else {
                "closure"
            }
        }
        DefKind::Const { .. } | DefKind::AssocConst { .. } => "const",
        DefKind::Static { .. } => "static",
        DefKind::AnonConst | DefKind::InlineConst => "anonconst",
        _ => "other",
    };
    let _ = write!(out, "{{\"path\":{},\"kind\":\"{}\"", js(&path_s(tcx, did)), kind);
    let sp = tcx.def_span(did);
    let sm = tcx.sess.source_map();
    let root = sp.source_callsite();
    let lo = sm.lookup_char_pos(root.lo());
    let fname = match &lo.file.name {
        rustc_span::FileName::Real(r) => match r.local_path() {
            Some(p) => p.to_string_lossy().to_string(),
            None => format!("{:?}", r),
        },
        other => format!("{:?}", other),
    };
    let bsp = body.span.source_callsite();
    let end = sm.lookup_char_pos(bsp.hi()).line;
    let _ = write!(out, ",\"file\":{},\"line\":{},\"end\":{}", js(&fname), lo.line, end);
    if sp.from_expansion() {
        let l = loc(tcx, sp);
        if let Some(m) = l.mac {
            let _ = write!(out, ",\"mac\":{}", js(&m));
        }
    }
    if matches!(dk, DefKind::Fn | DefKind::AssocFn) {
        let vis = tcx.visibility(did);
        let _ = write!(out, ",\"pub\":{}", vis.is_public());
        if let Some(imp) = tcx.impl_of_assoc(did) {
            let self_ty = tcx.type_of(imp).instantiate_identity().skip_norm_wip();
            let _ = write!(out, ",\"self_ty\":{}", js(&ty_s(self_ty)));
            if let Some(tr) = tcx.impl_opt_trait_ref(imp) {
                let tr = tr.instantiate_identity().skip_norm_wip();
                let _ = write!(out, ",\"trait\":{}", js(&path_s(tcx, tr.def_id)));
            }
        }
    }
    if matches!(dk, DefKind::Closure) {
        let parent = tcx.typeck_root_def_id(did);
        let _ = write!(out, ",\"root\":{}", js(&path_s(tcx, parent)));
    }
    let _ = write!(out, ",\"argc\":{}", body.arg_count);
    // locals
    out.push_str(",\"locals\":[");
    for (i, (_l, d)) in body.local_decls.iter_enumerated().enumerate() {
        if i > 0 {
            out.push(',');
        }
        let user = d.is_user_variable();
        let _ = write!(out, "{{\"ty\":{}", js(&ty_s(d.ty)));
        if user {
            out.push_str(",\"user\":true");
        }
        out.push('}');
    }
    out.push_str("],\"vars\":[");
    let mut first = true;
    for v in body.var_debug_info.iter() {
        if let VarDebugInfoContents::Place(p) = v.value {
            if !first {
                out.push(',');
            }
            first = false;
            let _ = write!(out, "{{\"name\":{},\"p\":", js(v.name.as_str()));
            cx.place(p, &mut out);
            if v.source_info.span.desugaring_kind().is_some() {
                out.push_str(",\"ds\":true");
            }
            out.push('}');
        }
    }
    out.push_str("],\"blocks\":[");
    for (i, (_bb, data)) in body.basic_blocks.iter_enumerated().enumerate() {
        if i > 0 {
            out.push(',');
        }
        out.push_str("{\"s\":[");
        let mut firsts = true;
        for st in data.statements.iter() {
            let mut tmp = String::new();
            if cx.statement(st, &mut tmp) {
                if !firsts {
                    out.push(',');
                }
                firsts = false;
                out.push_str(&tmp);
            }
        }
        out.push_str("],\"t\":");
        cx.terminator(data.terminator(), &mut out);
        if data.is_cleanup {
            out.push_str(",\"cleanup\":true");
        }
        out.push('}');
    }
    out.push_str("]}");
    out
}

fn my_mir_built<'tcx>(tcx: TyCtxt<'tcx>, def: LocalDefId) -> &'tcx Steal<Body<'tcx>> {
    let orig = { ORIG.lock().unwrap().unwrap() };
    let steal = orig(tcx, def);
    let s = {
        let body = steal.borrow();
        dump_body(tcx, def, &body)
    };
    FNS.lock().unwrap().push(s);
    steal
}

fn dump_items<'tcx>(tcx: TyCtxt<'tcx>, out: &mut String) {
    // ADTs
    out.push_str("\"adts\":[");
    let mut first = true;
    for ld in tcx.hir_crate_items(()).definitions() {
        let did = ld.to_def_id();
        let dk = tcx.def_kind(did);
        if !matches!(dk, DefKind::Struct | DefKind::Enum | DefKind::Union) {
            continue;
        }
        let adt = tcx.adt_def(did);
        if !first {
            out.push(',');
        }
        first = false;
        let kind = if adt.is_enum() {
            "enum"
        } else if adt.is_union() {
            "union"
        } else {
            "struct"
        };
        let _ = write!(out, "{{\"path\":{},\"kind\":\"{}\",\"variants\":[", js(&path_s(tcx, did)), kind);
        let discrs: Vec<(rustc_abi::VariantIdx, ty::util::Discr<'tcx>)> =
            if adt.is_enum() { adt.discriminants(tcx).collect() } else { Vec::new() };
        for (vi, v) in adt.variants().iter_enumerated() {
            if vi.as_usize() > 0 {
                out.push(',');
            }
            let _ = write!(out, "{{\"name\":{}", js(v.name.as_str()));
            if let Some((_, d)) = discrs.iter().find(|(i, _)| *i == vi) {
                // signed interpretation where the repr is signed
                let val: i128 = match d.ty.kind() {
                    ty::Int(i) => {
                        let bits = i.bit_width().unwrap_or(64) as u32;
                        let sh = 128 - bits;
                        ((d.val << sh) as i128) >> sh
                    }
                    _ => d.val as i128,
                };
                let _ = write!(out, ",\"discr\":{}", val);
            }
            out.push_str(",\"fields\":[");
            for (fi, f) in v.fields.iter().enumerate() {
                if fi > 0 {
                    out.push(',');
                }
                let fty = tcx.type_of(f.did).instantiate_identity().skip_norm_wip();
                let _ = write!(out, "[{},{}]", js(f.name.as_str()), js(&ty_s(fty)));
            }
            out.push_str("]}");
        }
        out.push_str("]}");
    }
    out.push_str("],\"impls\":[");
    // trait impls
    let mut first = true;
    for (trait_did, impls) in tcx.all_local_trait_impls(()).iter() {
        for imp in impls.iter() {
            let idid = imp.to_def_id();
            let self_ty = tcx.type_of(idid).instantiate_identity().skip_norm_wip();
            if !first {
                out.push(',');
            }
            first = false;
            let derived = tcx.is_automatically_derived(idid);
            let sp = tcx.def_span(idid);
            let l = loc(tcx, sp);
            let _ = write!(
                out,
                "{{\"trait\":{},\"self\":{},\"derived\":{}",
                js(&path_s(tcx, *trait_did)),
                js(&ty_s(self_ty)),
                derived
            );
            if let Some(m) = l.mac {
                let _ = write!(out, ",\"mac\":{}", js(&m));
            }
            out.push('}');
        }
    }
    out.push_str("],\"statics\":[");
    let mut first = true;
    for ld in tcx.hir_crate_items(()).definitions() {
        let did = ld.to_def_id();
        if let DefKind::Static { mutability, nested, .. } = tcx.def_kind(did) {
            if nested || mutability.is_mut() {
                continue;
            }
            let ty = tcx.type_of(did).instantiate_identity().skip_norm_wip();
            if !ty.is_integral() {
                continue;
            }
            let Ok(alloc) = tcx.eval_static_initializer(did) else { continue };
            let alloc = alloc.inner();
            let size = alloc.size();
            let r = rustc_middle::mir::interpret::alloc_range(rustc_abi::Size::ZERO, size);
            if let Ok(sc) = alloc.read_scalar(&tcx, r, false) {
                if let Ok(si) = sc.try_to_scalar_int() {
                    if !first {
                        out.push(',');
                    }
                    first = false;
                    let v: i128 = if ty.is_signed() { si.to_int(si.size()) } else { si.to_bits(si.size()) as i128 };
                    let _ = write!(out, "{{\"path\":{},\"ty\":{},\"int\":{}}}", js(&path_s(tcx, did)), js(&ty_s(ty)), v);
                }
            }
        }
    }
    out.push_str("],\"consts\":[");
    // evaluated integer constants referenced from bodies + all local integer consts
    let mut wanted: BTreeSet<(u32, u32)> = BTreeSet::new();
    for ld in tcx.hir_crate_items(()).definitions() {
        let did = ld.to_def_id();
        if matches!(tcx.def_kind(did), DefKind::Const { .. } | DefKind::AssocConst { .. }) {
            wanted.insert((did.krate.as_u32(), did.index.as_u32()));
        }
    }
    for (k, i) in CONST_ITEMS.lock().unwrap().iter() {
        let did = DefId {
            krate: rustc_hir::def_id::CrateNum::from_u32(*k),
            index: rustc_hir::def_id::DefIndex::from_u32(*i),
        };
        if matches!(tcx.def_kind(did), DefKind::Const { .. } | DefKind::AssocConst { .. } | DefKind::AnonConst | DefKind::InlineConst) {
            wanted.insert((did.krate.as_u32(), did.index.as_u32()));
        }
    }
    let mut first = true;
    for (k, i) in wanted {
        let did = DefId {
            krate: rustc_hir::def_id::CrateNum::from_u32(k),
            index: rustc_hir::def_id::DefIndex::from_u32(i),
        };
        // only monomorphic items of scalar type
        if tcx.generics_of(did).requires_monomorphization(tcx) {
            continue;
        }
        if let Some(parent) = tcx.opt_parent(did) {
            if matches!(tcx.def_kind(parent), DefKind::Trait) {
                continue;
            }
        }
        let env = ty::TypingEnv::post_analysis(tcx, did);
        let Ok(ty) = tcx.try_normalize_erasing_regions(env, tcx.type_of(did).instantiate_identity()) else { continue };
        let is_str = matches!(ty.kind(), ty::Ref(_, inner, _) if inner.is_str());
        if !(ty.is_integral() || ty.is_bool() || ty.is_char() || ty.is_floating_point() || is_str) {
            continue;
        }
        let Ok(val) = tcx.const_eval_poly(did) else { continue };
        if is_str && !matches!(val, ConstValue::Slice { .. }) {
            // e.g. a `&str` returned by a const fn: an indirect value; read (ptr, len) out of the allocation
            if let ConstValue::Indirect { alloc_id, offset } = val {
                let alloc = tcx.global_alloc(alloc_id).unwrap_memory().inner();
                let ptr_size = tcx.data_layout.pointer_size();
                let range = rustc_abi::Size::from_bytes(offset.bytes())..rustc_abi::Size::from_bytes(offset.bytes() + 2 * ptr_size.bytes());
                let _ = range;
                let r1 = rustc_middle::mir::interpret::alloc_range(offset, ptr_size);
                let r2 = rustc_middle::mir::interpret::alloc_range(offset + ptr_size, ptr_size);
                if let (Ok(p), Ok(l)) = (alloc.read_scalar(&tcx, r1, true), alloc.read_scalar(&tcx, r2, false)) {
                    if let (rustc_middle::mir::interpret::Scalar::Ptr(ptr, _), Ok(len)) = (p, l.try_to_scalar_int().map(|x| x.to_bits(x.size()) as u64)) {
                        let (prov, off) = ptr.into_raw_parts();
                        if let Some(rustc_middle::mir::interpret::GlobalAlloc::Memory(data)) = tcx.try_get_global_alloc(prov.alloc_id()) {
                            let data = data.inner();
                            let bytes = data.inspect_with_uninit_and_ptr_outside_interpreter(off.bytes_usize()..off.bytes_usize() + len as usize);
                            if let Ok(st) = std::str::from_utf8(bytes) {
                                if !first {
                                    out.push(',');
                                }
                                first = false;
                                let _ = write!(out, "{{\"path\":{},\"ty\":\"&str\",\"str\":{}}}", js(&path_s(tcx, did)), js(st));
                            }
                        }
                    }
                }
            }
            continue;
        }
        if is_str {
            if let ConstValue::Slice { .. } = val {
                if let Some(bytes) = val.try_get_slice_bytes_for_diagnostics(tcx) {
                    if let Ok(st) = std::str::from_utf8(bytes) {
                        if !first {
                            out.push(',');
                        }
                        first = false;
                        let _ = write!(out, "{{\"path\":{},\"ty\":\"&str\",\"str\":{}}}", js(&path_s(tcx, did)), js(st));
                    }
                }
            }
            continue;
        }
        let Some(si) = val.try_to_scalar_int() else { continue };
        if !first {
            out.push(',');
        }
        first = false;
        let _ = write!(out, "{{\"path\":{},\"ty\":{}", js(&path_s(tcx, did)), js(&ty_s(ty)));
        let size = si.size();
        if ty.is_signed() {
            let _ = write!(out, ",\"int\":{}", si.to_int(size));
        } else if ty.is_floating_point() {
            let bits = si.to_bits(size);
            let f = if size.bytes() == 4 { f32::from_bits(bits as u32) as f64 } else { f64::from_bits(bits as u64) };
            let _ = write!(out, ",\"float\":{}", js(&format!("{}", f)));
        } else {
            let _ = write!(out, ",\"int\":{}", si.to_bits(size));
        }
        out.push('}');
    }
    out.push(']');
}

struct Cb;
impl Callbacks for Cb {
    fn config(&mut self, config: &mut Config) {
        config.override_queries = Some(|_sess, providers: &mut Providers| {
            *ORIG.lock().unwrap() = Some(providers.queries.mir_built);
            providers.queries.mir_built = my_mir_built;
        });
    }
    fn after_analysis<'tcx>(&mut self, _c: &Compiler, tcx: TyCtxt<'tcx>) -> Compilation {
        let Ok(dir) = std::env::var("MIRFACTS_OUT") else { return Compilation::Continue };
        let krate = tcx.crate_name(LOCAL_CRATE).to_string();
        if krate == "build_script_build" {
            return Compilation::Continue;
        }
        // make sure every body owner went through the provider
        let owners: Vec<LocalDefId> = tcx.hir_body_owners().collect();
        for o in owners.iter() {
            let _ = tcx.mir_built(*o);
        }
        let kind = if tcx.crate_types().iter().any(|t| matches!(t, rustc_session::config::CrateType::Executable)) {
            "bin"
        } else {
            "lib"
        };
        let mut out = String::new();
        let _ = write!(
            out,
            "{{\"crate\":{},\"kind\":\"{}\",\"owners\":{},",
            js(&krate),
            kind,
            owners.len()
        );
        dump_items(tcx, &mut out);
        out.push_str(",\"fns\":[\n");
        let fns = FNS.lock().unwrap();
        for (i, f) in fns.iter().enumerate() {
            if i > 0 {
                out.push_str(",\n");
            }
            out.push_str(f);
        }
        out.push_str("\n]}\n");
        let path = format!("{}/{}.{}.json", dir, krate, kind);
        let tmp = format!("{}.{}.tmp", path, std::process::id());
        std::fs::write(&tmp, out.as_bytes()).expect("mirfacts: cannot write fact file");
        std::fs::rename(&tmp, &path).expect("mirfacts: cannot rename fact file");
        Compilation::Continue
    }
}

fn main() {
    let mut args: Vec<String> = std::env::args().collect();
    if args.len() > 1 {
        args.remove(1);
    }
    rustc_driver::run_compiler(&args, &mut Cb);
}
